"""./check entry point."""
import importlib
import sys


def main(argv):
    if not argv:
        print("usage: check <C01..C19|selftest> [--tier quick|thorough] [--replay FILE]")
        return 2
    what = argv[0]
    from . import core, world
    if what == "selftest":
        from . import selftest
        return selftest.main(argv[1:])
    try:
        world.import_memento()
    except Exception as e:  # noqa
        print("HARNESS-ERROR cannot import twosigma.memento from %s: %r" % (core.REPO, e))
        return core.EXIT_HARNESS
    try:
        mod = importlib.import_module("checks." + what.lower())
        return core.main_check(mod, argv[1:])
    except Exception:  # noqa  (a bug in the machinery is never reported as a violation and never as success)
        import traceback
        print("HARNESS-ERROR property=%s %s" % (what, traceback.format_exc()[-2000:]))
        return core.EXIT_HARNESS


if __name__ == "__main__":
    sys.exit(main(sys.argv[1:]))
