"""Pristine-parent bootstrap and per-lifetime world construction.

import_memento() runs once per worker: it puts $VERIF_REPO first on sys.path, installs the
FS seam, the cooperative lock factory (before the library creates its locks), imports
twosigma.memento and silences its logger.  It never defines a memento function and never
creates an Environment: that happens only inside forked lifetimes."""
import builtins
import datetime as _dt
import logging
import os
import random
import sys
import uuid as _uuid

from . import core, simfs

_M = {}


def import_memento():
    if _M:
        return _M["m"]
    os.environ[core.GUARD] = "1"
    repo = core.REPO
    if sys.path[0] != repo:
        sys.path.insert(0, repo)
    for k in [k for k in sys.modules if k == "twosigma" or k.startswith("twosigma.")]:
        del sys.modules[k]
    simfs.install()
    from . import simsched
    simsched.install_lock_factory()
    try:
        import twosigma.memento as m
        import twosigma.memento.runner_local  # noqa: F401  (binds RLock at import)
    finally:
        simsched.restore_lock_factory()
    assert os.path.abspath(m.__file__).startswith(os.path.abspath(repo) + os.sep), (
        "twosigma.memento imported from %s, not from %s" % (m.__file__, repo))
    from twosigma.memento.logging import log
    log.setLevel(logging.CRITICAL)
    logging.getLogger("twosigma").setLevel(logging.CRITICAL)
    _M["m"] = m
    return m


# ------------------------------------------------------------------ id and clock seams

class SimIds:
    def __init__(self, seed):
        self.r = core.stream(seed, "ids")
        self.count = 0

    def uuid4(self):
        self.count += 1
        return _uuid.UUID(int=self.r.getrandbits(128), version=4)


class SimClock:
    """Virtual wall clock.  Every read advances it by a tick so that runtimes are positive."""

    def __init__(self, seed, start=1_600_000_000.0):
        self.r = core.stream(seed, "clock")
        self.t = start
        self.t0 = start
        self.jumps = 0

    def now(self, tz=None):
        self.t += 0.001
        d = _dt.datetime.fromtimestamp(self.t, _dt.timezone.utc)
        if tz is None:
            return d.replace(tzinfo=None)
        return d.astimezone(tz)

    def sleep(self, s):
        self.t += s

    def jump(self, delta):
        self.t = max(1_000_000.0, self.t + delta)
        self.jumps += 1

    def elapsed(self):
        return self.t - self.t0


class _DatetimeShim:
    """Stands in for the `datetime` *module* attribute of call_stack / runner_local."""

    def __init__(self, clock):
        self._clock = clock
        shim = self

        class datetime(_dt.datetime):
            @classmethod
            def now(cls, tz=None):
                return shim._clock.now(tz)

        self.datetime = datetime
        self.timezone = _dt.timezone
        self.timedelta = _dt.timedelta
        self.date = _dt.date

    def __getattr__(self, k):
        return getattr(_dt, k)


def install_seams(seed):
    """Inside a lifetime: seeded uuid4, simulated clock."""
    import_memento()
    import twosigma.memento.storage_filesystem as sfs
    import twosigma.memento.runner as rn
    import twosigma.memento.call_stack as cs
    import twosigma.memento.runner_local as rl
    import twosigma.memento.storage_base as sb
    ids = SimIds(seed)
    clock = SimClock(seed)
    sfs.uuid4 = ids.uuid4

    class _UuidShim:
        uuid4 = staticmethod(ids.uuid4)
        UUID = _uuid.UUID

    rn.uuid = _UuidShim
    shim = _DatetimeShim(clock)
    cs.datetime = shim
    rl.datetime = shim
    sb.sleep = clock.sleep
    _deterministic_identity_hash()
    import numpy as np
    np.random.seed(seed & 0x7FFFFFFF)
    random.seed(seed)
    return ids, clock


_ORD = [0]


def _deterministic_identity_hash():
    """Memento function objects hash by address, and the library iterates sets of them
    (e.g. in _validate_dependency): the iteration order - hence the sequence of yield points and
    version computations - would depend on the heap layout of the worker.  Replace the identity
    hash by the ordinal of first use (equality stays identity)."""
    from twosigma.memento.types import MementoFunctionType

    def __hash__(self):
        d = self.__dict__
        h = d.get("_vsim_ord")
        if h is None:
            _ORD[0] += 1
            h = d["_vsim_ord"] = _ORD[0]
        return h

    MementoFunctionType.__hash__ = __hash__
    for sub in list(MementoFunctionType.__subclasses__()):
        for c in [sub] + list(sub.__subclasses__()):
            if "__hash__" in c.__dict__ and c.__dict__["__hash__"] is None:
                pass
            c.__hash__ = __hash__


# ------------------------------------------------------------------ environment

def make_storage(kind, root, cache_mb=None, sep_meta=False, read_only=None, config=None):
    from twosigma.memento.storage_filesystem import FilesystemStorageBackend
    from twosigma.memento.storage_memory import MemoryStorageBackend
    if kind == "memory":
        return MemoryStorageBackend()
    kw = dict(path=root + "/data")
    if sep_meta:
        kw["metadata_path"] = root + "/meta"
    if cache_mb:
        kw["memory_cache_mb"] = cache_mb
    if read_only is not None:
        kw["read_only"] = read_only
    if config is not None:
        return FilesystemStorageBackend(config=config)
    return FilesystemStorageBackend(**kw)


def store_roots(root, sep_meta):
    return [root + "/data"] + ([root + "/meta"] if sep_meta else [])


def make_env(root, storage, clusters=None):
    """Environment whose default cluster uses `storage`; clusters: name -> storage."""
    from twosigma.memento import Environment, FunctionCluster, ConfigurationRepository
    os.makedirs(root + "/env", exist_ok=True)
    repos = []
    if clusters:
        repos.append(ConfigurationRepository(
            name="r", clusters={n: FunctionCluster(name=n, storage=s) for n, s in clusters.items()}))
    env = Environment(name="sim", base_dir=root + "/env", repos=repos)
    if storage is not None:
        env.default_cluster = FunctionCluster(name="default", storage=storage)
    Environment.set(env)
    return env


# ------------------------------------------------------------------ side channel

class SideChannel:
    """Execution trace delivered through builtins (never module globals: memento tracks those)."""

    def __init__(self):
        self.events = []
        self.table = {}
        builtins.__vtrace__ = self._trace
        builtins.__vget__ = self._get
        builtins.__vhint__ = self._hint

    @staticmethod
    def _hint():
        from . import simsched
        sch = simsched.CURRENT[0]
        if sch is not None and sch.me() is not None:
            sch.hint()

    def _trace(self, *a):
        self.events.append(list(a))

    def _get(self, k, default=None):
        return self.table.get(k, default)

    def take(self):
        ev, self.events[:] = list(self.events), []
        return ev


# ------------------------------------------------------------------ generated programs

def load_module(name, src, filename=None, package=None):
    """Execute `src` as module `name` (like a notebook cell: registered in linecache so that
    inspect.getsource works).  Re-executing into an existing module redefines in place."""
    import linecache
    import types
    mod = sys.modules.get(name)
    if mod is None:
        mod = types.ModuleType(name)
        mod.__package__ = package if package is not None else name.rpartition(".")[0]
        sys.modules[name] = mod
        if "." in name:
            parent, _, leaf = name.rpartition(".")
            if parent not in sys.modules:
                pk = types.ModuleType(parent)
                pk.__path__ = []
                pk.__package__ = parent
                sys.modules[parent] = pk
            setattr(sys.modules[parent], leaf, mod)
    n = getattr(mod, "__vcells__", 0) + 1
    mod.__vcells__ = n
    filename = filename or "<%s-cell-%d>" % (name, n)
    linecache.cache[filename] = (len(src), None, src.splitlines(True), filename)
    exec(compile(src, filename, "exec"), mod.__dict__)
    return mod


def describe_exc(e):
    return {"type": type(e).__name__, "module": type(e).__module__, "msg": str(e)[:300]}
