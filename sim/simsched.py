"""Deterministic thread scheduler: real threads, exactly one holds the baton.

Pre-emption points come from sys.settrace (call events in every twosigma.memento module,
line events in the runner / storage modules); locks are wrapped so that waiting is a
scheduler decision.  The choice of who runs next is the only thing that is simulated.
See DESIGN.md 2.5."""
import _thread
import os
import sys
import threading

_real_Lock = threading.Lock
_real_RLock = threading.RLock

LINE_MODULES = ("runner_local.py", "storage_base.py", "storage_memory.py", "storage_filesystem.py",
                "runner.py", "call_stack.py")
MEMENTO_DIR = os.sep + os.path.join("twosigma", "memento") + os.sep

CURRENT = [None]   # the active Scheduler, if any


class SimAbort(BaseException):
    """Raised inside simulated threads to unwind them after deadlock / step cap."""


class _SimLockBase:
    _factory = None

    def __init__(self):
        self._l = self._factory()

    def acquire(self, blocking=True, timeout=-1):
        sch = CURRENT[0]
        me = sch.me() if sch is not None else None
        if me is None:
            return self._l.acquire(blocking, timeout)
        sch.yield_point("lock")
        while not self._l.acquire(False):
            if not blocking:
                return False
            sch.stats["lock_contention"] += 1
            sch.block(me, self)
        return True

    def release(self):
        self._l.release()
        sch = CURRENT[0]
        if sch is not None:
            sch.unblock(self)

    def __enter__(self):
        self.acquire()
        return self

    def __exit__(self, *a):
        self.release()

    def locked(self):
        return self._l.locked()

    def __getattr__(self, k):  # _is_owned, _release_save, _acquire_restore, _at_fork_reinit, ...
        return getattr(self._l, k)


class SimLock(_SimLockBase):
    _factory = staticmethod(_real_Lock)


class SimRLock(_SimLockBase):
    _factory = staticmethod(_real_RLock)

    def locked(self):
        if self._l.acquire(False):
            self._l.release()
            return False
        return True


def install_lock_factory():
    """Before importing the library: names bound by `from threading import RLock` get the wrapper."""
    threading.RLock = SimRLock
    threading.Lock = SimLock


def restore_lock_factory():
    threading.RLock = _real_RLock
    threading.Lock = _real_Lock


class _T:
    __slots__ = ("name", "fn", "gate", "done", "blocked", "result", "exc", "thread", "ident", "prio")

    def __init__(self, name, fn):
        self.name, self.fn = name, fn
        self.gate = _thread.allocate_lock()
        self.gate.acquire()
        self.done = False
        self.blocked = None
        self.result = None
        self.exc = None
        self.thread = None
        self.ident = None
        self.prio = 0


class Scheduler:
    """strategy: dict(kind='random', p=..) | dict(kind='pct', d=.., horizon=..)
                 | dict(kind='sweep', at=step, to=index) | dict(kind='replay', switches=[[step,to],..])
                 | dict(kind='none')"""

    def __init__(self, rng, strategy, step_cap=60000, line_modules=LINE_MODULES, opcodes=False):
        self.rng = rng
        self.strategy = dict(strategy)
        self.kind = self.strategy.get("kind", "random")
        self.step_cap = step_cap
        self.line_modules = tuple(line_modules)
        self.opcodes = opcodes      # pre-emption between the bytecodes of one line (f_trace_opcodes) in the line modules
        self.ts = {}
        self.order = []
        self.by_ident = {}
        self.steps = 0
        self.hints = 0
        self.switches = []          # [step, to] — the replayable schedule
        self.coarse = []            # (thread, memento-level function entered)
        self.deadlock = False
        self.livelock = False
        self.aborting = False
        self.main_gate = _thread.allocate_lock()
        self.main_gate.acquire()
        self.stats = {"lock_contention": 0, "preemptions": 0, "forced_switches": 0}
        self._replay = [(list(x) + ["p"])[:3] for x in self.strategy.get("switches", [])]
        self._pct_points = []
        self._file_cache = {}

    # ---- set-up
    def add(self, name, fn):
        t = _T(name, fn)
        self.ts[name] = t
        self.order.append(name)

    def me(self):
        return self.by_ident.get(_thread.get_ident())

    def runnable(self, exclude=None):
        return [n for n in self.order if not self.ts[n].done and self.ts[n].blocked is None and n != exclude]

    # ---- thread body
    def _body(self, t):
        t.ident = _thread.get_ident()
        self.by_ident[t.ident] = t.name
        t.gate.acquire()
        try:
            if self.aborting:
                raise SimAbort()
            sys.settrace(self._trace)
            t.result = t.fn()
        except SimAbort:
            t.exc = None
        except BaseException as e:  # noqa
            t.exc = e
        finally:
            sys.settrace(None)
            t.done = True
            self._finish(t)

    def _finish(self, t):
        r = self.runnable()
        if self.aborting or not r:
            live = [n for n in self.order if not self.ts[n].done]
            if live and not self.aborting:
                self.deadlock = True
                self._abort_all()
                return
            if live and self.aborting:
                # wake the next parked thread so that it unwinds too
                self.ts[live[0]].gate.release()
                return
            self.main_gate.release()
            return
        nxt = self._choose_forced(r)
        self.stats["forced_switches"] += 1
        self.switches.append([self.steps, nxt, "f"])
        self.ts[nxt].gate.release()

    def _abort_all(self):
        self.aborting = True
        live = [n for n in self.order if not self.ts[n].done and self.ts[n].ident != _thread.get_ident()]
        if live:
            self.ts[live[0]].gate.release()
        else:
            self.main_gate.release()

    # ---- tracing
    def _is_line_file(self, fn):
        v = self._file_cache.get(fn)
        if v is None:
            if MEMENTO_DIR in fn:
                v = 2 if fn.endswith(self.line_modules) else 1
            else:
                v = 0
            self._file_cache[fn] = v
        return v

    def _trace(self, frame, event, arg):
        k = self._is_line_file(frame.f_code.co_filename)
        if k == 0:
            return None
        if event == "call":
            self.coarse.append((self.by_ident.get(_thread.get_ident()), frame.f_code.co_name))
            self.yield_point("call")
            if k == 2 and self.opcodes:
                frame.f_trace_opcodes = True
                return self._trace_opcode
            return self._trace_line if k == 2 else None
        return None

    def _trace_line(self, frame, event, arg):
        if event == "line":
            self.yield_point("line")
        return self._trace_line

    def _trace_opcode(self, frame, event, arg):
        if event == "opcode":
            self.yield_point("opcode")
        return self._trace_opcode

    def hint(self):
        """A pre-emption point placed by the workload inside a user function body (between its nested calls)."""
        self.hints += 1
        self.yield_point("hint")

    # ---- decisions
    def yield_point(self, why):
        if self.aborting:
            raise SimAbort()
        me = self.me()
        if me is None:
            return
        self.steps += 1
        if self.steps > self.step_cap:
            self.livelock = True
            self._abort_all_from(me)
        to = self._decide(me)
        if to is not None and to != me:
            self.stats["preemptions"] += 1
            self.switches.append([self.steps, to, "p"])
            self._switch(me, to)

    def _abort_all_from(self, me):
        self.aborting = True
        raise SimAbort()

    def _decide(self, me):
        k = self.kind
        if k == "random":
            if self.rng.random() < self.strategy.get("p", 0.02):
                r = self.runnable(exclude=me)
                if r:
                    return r[self.rng.randrange(len(r))]
            return None
        if k == "replay":
            if self._replay and self._replay[0][0] <= self.steps and self._replay[0][2] == "p":
                to = self._replay.pop(0)[1]
                if to in self.ts and not self.ts[to].done and self.ts[to].blocked is None:
                    return to
            return None
        if k == "hint":       # switch at the n-th workload hint, then run to completion
            if self.hints == self.strategy["at_hint"] and not self.strategy.get("_done"):
                r = self.runnable(exclude=me)
                if r:
                    self.strategy["_done"] = True
                    return r[self.strategy.get("to", 0) % len(r)]
            return None
        if k == "sweep":
            if self.steps == self.strategy["at"]:
                r = self.runnable(exclude=me)
                if r:
                    return r[self.strategy.get("to", 0) % len(r)]
            return None
        if k == "pct":
            if self._pct_points and self.steps >= self._pct_points[0]:
                self._pct_points.pop(0)
                self.ts[me].prio = self._pct_low
                self._pct_low -= 1
            r = self.runnable()
            best = max(r, key=lambda n: (self.ts[n].prio, -self.order.index(n)))
            return best if best != me else None
        return None

    def _choose_forced(self, r):
        if self.kind == "replay":
            if self._replay and self._replay[0][0] <= self.steps and self._replay[0][2] == "f":
                to = self._replay.pop(0)[1]
                if to in r:
                    return to
            return r[0]
        if self.kind == "pct":
            return max(r, key=lambda n: (self.ts[n].prio, -self.order.index(n)))
        if self.kind in ("random",):
            return r[self.rng.randrange(len(r))]
        return r[0]

    def _switch(self, me, to):
        self.ts[to].gate.release()
        self.ts[me].gate.acquire()
        if self.aborting:
            raise SimAbort()

    def block(self, me, lock):
        t = self.ts[me]
        t.blocked = lock
        r = self.runnable()
        if not r:
            t.blocked = None
            self.deadlock = True
            self.aborting = True
            raise SimAbort()
        nxt = self._choose_forced(r)
        self.stats["forced_switches"] += 1
        self.switches.append([self.steps, nxt, "f"])
        self._switch(me, nxt)

    def unblock(self, lock):
        for n in self.order:
            if self.ts[n].blocked is lock:
                self.ts[n].blocked = None

    # ---- run
    def run(self, wall_timeout=60.0):
        CURRENT[0] = self
        if self.kind == "pct":
            d = self.strategy.get("d", 1)
            hz = max(self.strategy.get("horizon", 2000), d + 1)
            self._pct_points = sorted(self.rng.sample(range(1, hz), d))
            names = list(self.order)
            self.rng.shuffle(names)
            for i, n in enumerate(names):
                self.ts[n].prio = 100 + i
            self._pct_low = 99
        try:
            for n in self.order:
                t = self.ts[n]
                t.thread = threading.Thread(target=self._body, args=(t,), name=n, daemon=True)
                t.thread.start()
            if self.kind == "replay" and self._replay and self._replay[0][2] == "s":
                first = self._replay.pop(0)[1]
            elif self.kind == "pct":
                first = max(self.order, key=lambda n: self.ts[n].prio)
            elif self.kind == "random":
                first = self.order[self.rng.randrange(len(self.order))]
            else:
                first = self.order[self.strategy.get("first", 0) % len(self.order)]
            self.switches.append([0, first, "s"])
            self.ts[first].gate.release()
            ok = self.main_gate.acquire(True, wall_timeout)
            if not ok:
                self.hung = True
                return False
            for n in self.order:
                self.ts[n].thread.join(5.0)
            return True
        finally:
            CURRENT[0] = None
