"""Value domain: materialisation from JSON specs, type-aware deep equality, JSON-able summaries."""
import datetime as dt
import math


def deep_equal(a, b):
    """Equality that distinguishes bool/int/float, date/datetime/Timestamp, dtypes and indexes; NaN == NaN."""
    import numpy as np
    import pandas as pd
    from twosigma.memento.partition import Partition
    if isinstance(a, Partition) or isinstance(b, Partition):
        if not (isinstance(a, Partition) and isinstance(b, Partition)):
            return False
        ka, kb = sorted(a.list_keys()), sorted(b.list_keys())
        return ka == kb and all(deep_equal(a.get(k), b.get(k)) for k in ka)
    if isinstance(a, pd.DataFrame) or isinstance(b, pd.DataFrame):
        if type(a) is not type(b):
            return False
        try:
            pd.testing.assert_frame_equal(a, b, check_exact=True)
            return True
        except AssertionError:
            return False
    if isinstance(a, pd.Series) or isinstance(b, pd.Series):
        if type(a) is not type(b):
            return False
        try:
            pd.testing.assert_series_equal(a, b, check_exact=True)
            return True
        except AssertionError:
            return False
    if isinstance(a, pd.Index) or isinstance(b, pd.Index):
        if type(a) is not type(b):
            return False
        try:
            pd.testing.assert_index_equal(a, b, exact=True)
            return True
        except AssertionError:
            return False
    if isinstance(a, np.ndarray) or isinstance(b, np.ndarray):
        if not (isinstance(a, np.ndarray) and isinstance(b, np.ndarray)):
            return False
        return a.dtype == b.dtype and a.shape == b.shape and bool(np.array_equal(a, b, equal_nan=a.dtype.kind == "f"))
    if type(a) is not type(b):
        # numpy scalars vs python scalars are different types on purpose
        return False
    if isinstance(a, float):
        if math.isnan(a) or math.isnan(b):
            return math.isnan(a) and math.isnan(b)
        return a == b and math.copysign(1.0, a) == math.copysign(1.0, b)
    if isinstance(a, (list, tuple)):
        return len(a) == len(b) and all(deep_equal(x, y) for x, y in zip(a, b))
    if isinstance(a, dict):
        return list(a.keys()) == list(b.keys()) and all(deep_equal(a[k], b[k]) for k in a) \
            if all(isinstance(k, str) for k in a) else a == b
    if isinstance(a, dt.datetime):
        return a == b and (a.tzinfo is None) == (b.tzinfo is None) and a.utcoffset() == b.utcoffset()
    return a == b


def summary(v, depth=0):
    """Deterministic JSON-able description of a value (for event logs and digests)."""
    import numpy as np
    import pandas as pd
    from twosigma.memento.partition import Partition
    if depth > 6:
        return "..."
    if v is None or isinstance(v, (bool, int, str)):
        return v if not isinstance(v, str) or len(v) < 60 else [v[:20], len(v)]
    if isinstance(v, float):
        return repr(v)
    if isinstance(v, bytes):
        return ["bytes", len(v), v[:8].hex()]
    if isinstance(v, (list, tuple)):
        return [type(v).__name__, len(v)] + [summary(x, depth + 1) for x in v[:6]]
    if isinstance(v, dict):
        return {str(k): summary(x, depth + 1) for k, x in list(v.items())[:8]}
    if isinstance(v, Partition):
        return {"__partition__": {k: summary(v.get(k), depth + 1) for k in sorted(v.list_keys())}}
    if isinstance(v, np.ndarray):
        return ["ndarray", str(v.dtype), list(v.shape), repr(v.ravel()[:4].tolist())]
    if isinstance(v, (pd.DataFrame, pd.Series, pd.Index)):
        return [type(v).__name__, list(v.shape), repr(v)[:80]]
    if isinstance(v, BaseException):
        return ["exc", type(v).__name__, str(v)[:80]]
    return [type(v).__name__, repr(v)[:80]]


def make_sized(spec):
    """spec: {"t": kind, "n": payload size, "u": unique id} -> value whose content is unique per u."""
    import numpy as np
    import pandas as pd
    t, n, u = spec["t"], int(spec["n"]), int(spec["u"])
    tag = "%07d" % u
    if t == "none":
        return None
    if t == "str":
        return tag + "s" * max(n, 0)
    if t == "bytes":
        return tag.encode() + b"b" * max(n, 0)
    if t == "list":
        # the library estimates len * size(first element): keep elements uniform
        k = max(1, n // 64)
        return [tag + "x" * 8 for _ in range(k)]
    if t == "dict":
        return {"k": tag + "d" * max(n, 0)}
    if t == "df":
        rows = max(1, min(n // 16, 90))
        return pd.DataFrame({"a": np.arange(rows, dtype=np.int64) + u, "b": np.full(rows, float(u))})
    if t == "arr":
        return np.arange(max(1, n // 8), dtype=np.int64) + u
    if t == "int":
        return u
    raise ValueError(t)
