"""Value domain: materialisation from JSON specs, type-aware deep equality, JSON-able summaries."""
import datetime as dt
import math


def deep_equal(a, b):
    """Equality that distinguishes bool/int/float, date/datetime/Timestamp, dtypes and indexes; NaN == NaN."""
    import numpy as np
    import pandas as pd
    from twosigma.memento.partition import Partition
    if isinstance(a, Partition) or isinstance(b, Partition):
        if not (isinstance(a, Partition) and isinstance(b, Partition)):
            return False
        ka, kb = sorted(a.list_keys()), sorted(b.list_keys())
        return ka == kb and all(deep_equal(a.get(k), b.get(k)) for k in ka)
    if isinstance(a, pd.DataFrame) or isinstance(b, pd.DataFrame):
        if type(a) is not type(b):
            return False
        try:
            pd.testing.assert_frame_equal(a, b, check_exact=True)
            return True
        except AssertionError:
            return False
    if isinstance(a, pd.Series) or isinstance(b, pd.Series):
        if type(a) is not type(b):
            return False
        try:
            pd.testing.assert_series_equal(a, b, check_exact=True)
            return True
        except AssertionError:
            return False
    if isinstance(a, pd.Index) or isinstance(b, pd.Index):
        if type(a) is not type(b):
            return False
        try:
            pd.testing.assert_index_equal(a, b, exact=True)
            return True
        except AssertionError:
            return False
    if isinstance(a, np.ndarray) or isinstance(b, np.ndarray):
        if not (isinstance(a, np.ndarray) and isinstance(b, np.ndarray)):
            return False
        return a.dtype == b.dtype and a.shape == b.shape and bool(np.array_equal(a, b, equal_nan=a.dtype.kind == "f"))
    if type(a) is not type(b):
        # numpy scalars vs python scalars are different types on purpose
        return False
    if isinstance(a, float):
        if math.isnan(a) or math.isnan(b):
            return math.isnan(a) and math.isnan(b)
        return a == b and math.copysign(1.0, a) == math.copysign(1.0, b)
    if isinstance(a, (list, tuple)):
        return len(a) == len(b) and all(deep_equal(x, y) for x, y in zip(a, b))
    if isinstance(a, dict):
        return list(a.keys()) == list(b.keys()) and all(deep_equal(a[k], b[k]) for k in a) \
            if all(isinstance(k, str) for k in a) else a == b
    if isinstance(a, dt.datetime):
        return a == b and (a.tzinfo is None) == (b.tzinfo is None) and a.utcoffset() == b.utcoffset()
    return a == b


def summary(v, depth=0):
    """Deterministic JSON-able description of a value (for event logs and digests)."""
    import numpy as np
    import pandas as pd
    from twosigma.memento.partition import Partition
    if depth > 6:
        return "..."
    if v is None or isinstance(v, (bool, int, str)):
        return v if not isinstance(v, str) or len(v) < 60 else [v[:20], len(v)]
    if isinstance(v, float):
        return repr(v)
    if isinstance(v, bytes):
        return ["bytes", len(v), v[:8].hex()]
    if isinstance(v, (list, tuple)):
        return [type(v).__name__, len(v)] + [summary(x, depth + 1) for x in v[:6]]
    if isinstance(v, dict):
        return {str(k): summary(x, depth + 1) for k, x in list(v.items())[:8]}
    if isinstance(v, Partition):
        return {"__partition__": {k: summary(v.get(k), depth + 1) for k in sorted(v.list_keys())}}
    if isinstance(v, np.ndarray):
        return ["ndarray", str(v.dtype), list(v.shape), repr(v.ravel()[:4].tolist())]
    if isinstance(v, (pd.DataFrame, pd.Series, pd.Index)):
        return [type(v).__name__, list(v.shape), repr(v)[:80]]
    if isinstance(v, BaseException):
        return ["exc", type(v).__name__, str(v)[:80]]
    return [type(v).__name__, repr(v)[:80]]


def make_sized(spec):
    """spec: {"t": kind, "n": payload size, "u": unique id} -> value whose content is unique per u."""
    import numpy as np
    import pandas as pd
    t, n, u = spec["t"], int(spec["n"]), int(spec["u"])
    tag = "%07d" % u
    if t == "none":
        return None
    if t == "str":
        return tag + "s" * max(n, 0)
    if t == "bytes":
        return tag.encode() + b"b" * max(n, 0)
    if t == "list":
        # the library estimates len * size(first element): keep elements uniform
        k = max(1, n // 64)
        return [tag + "x" * 8 for _ in range(k)]
    if t == "dict":
        return {"k": tag + "d" * max(n, 0)}
    if t == "df":
        rows = max(1, min(n // 16, 90))
        return pd.DataFrame({"a": np.arange(rows, dtype=np.int64) + u, "b": np.full(rows, float(u))})
    if t == "arr":
        return np.arange(max(1, n // 8), dtype=np.int64) + u
    if t == "int":
        return u
    if t == "bigdf":
        # more than 100 rows of strings of varying width: the library estimates the size of such a frame from a random sample
        # of 100 rows, so two estimates of the same frame differ
        return pd.DataFrame({"a": [tag + "x" * ((i * 7 + u) % 41) for i in range(160)], "b": np.arange(160, dtype=np.int64)})
    if t == "badpart":
        # a partition that cannot be stored: its first value (keys are stored in sorted order) has the bytes of the str value
        # with the same (u, n), its last value is something the codec cannot encode
        from twosigma.memento.partition import InMemoryPartition
        return InMemoryPartition({"p": tag + "s" * max(n, 0), "z": {"not", "encodable", u}})
    if t in ("part", "odpart"):
        # a partition whose value "p" has exactly the bytes of the str value with the same (u, n): it must share that object
        from twosigma.memento.partition import InMemoryPartition
        d = {"p": tag + "s" * max(n, 0), "q": u}
        if t == "part":
            return InMemoryPartition(d)
        from twosigma.memento.storage_filesystem import OnDiskPartition
        p = OnDiskPartition()
        for k in sorted(d):
            p[k] = d[k]
        return p
    raise ValueError(t)


# ----------------------------------------------------------------------------- documented result-type catalogue (C02)

def _catalogue():
    import numpy as np
    import pandas as pd
    from twosigma.memento.partition import InMemoryPartition
    tz = dt.timezone(dt.timedelta(hours=5, minutes=30))
    c = {
        "none": lambda: None,
        "true": lambda: True,
        "false": lambda: False,
        "int": lambda: 42,
        "int-big": lambda: 2 ** 70,
        "int-neg": lambda: -7,
        "float": lambda: 3.25,
        "nan": lambda: float("nan"),
        "inf": lambda: float("inf"),
        "-inf": lambda: float("-inf"),
        "-0.0": lambda: -0.0,
        "str": lambda: "hello",
        "str-empty": lambda: "",
        "str-unicode": lambda: "héllo 世界 \U0001f600",
        "bytes": lambda: b"\x00\x01\xff",
        "bytes-empty": lambda: b"",
        "date": lambda: dt.date(2020, 2, 29),
        "datetime-naive": lambda: dt.datetime(2020, 1, 2, 3, 4, 5, 678),
        "datetime-utc": lambda: dt.datetime(2020, 1, 2, 3, 4, 5, tzinfo=dt.timezone.utc),
        "datetime-offset": lambda: dt.datetime(2020, 1, 2, 3, 4, 5, tzinfo=tz),
        "timestamp": lambda: pd.Timestamp("2020-01-02 03:04:05.000000678"),
        "timestamp-tz": lambda: pd.Timestamp("2020-01-02 03:04:05", tz="UTC"),
        "list": lambda: [1, "a", 2.5, None, True],
        "list-empty": lambda: [],
        "list-nested": lambda: [[1, [2, [3, {"k": [4]}]]], {"a": {"b": [dt.date(2021, 1, 1), float("nan")]}}],
        "dict": lambda: {"a": 1, "b": "x", "c": [1, 2], "d": {"e": None}},
        "dict-empty": lambda: {},
        "dict-order": lambda: {"z": 1, "a": 2, "m": 3},
        "arr-bool": lambda: np.array([True, False, True]),
        "arr-int8": lambda: np.array([1, -2, 3], dtype=np.int8),
        "arr-int16": lambda: np.array([1, -2, 300], dtype=np.int16),
        "arr-int32": lambda: np.array([1, -2, 70000], dtype=np.int32),
        "arr-int64": lambda: np.array([1, -2, 2 ** 40], dtype=np.int64),
        "arr-float32": lambda: np.array([1.5, float("nan"), -0.0], dtype=np.float32),
        "arr-float64": lambda: np.array([1.5, float("inf"), 2.5e-300], dtype=np.float64),
        "arr-2d": lambda: np.arange(6, dtype=np.int64).reshape(2, 3),
        "arr-2d-float": lambda: np.array([[1.0, float("nan")], [3.0, 4.0]]),
        "arr-empty": lambda: np.array([], dtype=np.float64),
        "index": lambda: pd.Index([3, 1, 2], name="ix"),
        "index-str": lambda: pd.Index(["a", "b"]),
        "series": lambda: pd.Series([1.5, 2.5, float("nan")], name="s"),
        "series-named-index": lambda: pd.Series([1, 2], index=pd.Index(["a", "b"], name="k"), name="v"),
        "series-multiindex": lambda: pd.Series([1, 2, 3], index=pd.MultiIndex.from_tuples([("a", 1), ("a", 2), ("b", 1)], names=["l", "n"])),
        "series-empty": lambda: pd.Series([], dtype=np.float64),
        "frame": lambda: pd.DataFrame({"a": [1, 2, 3], "b": ["x", "y", None], "c": [1.5, float("nan"), 3.0]}),
        "frame-named-index": lambda: pd.DataFrame({"a": [1, 2]}, index=pd.Index([10, 20], name="id")),
        "frame-multiindex": lambda: pd.DataFrame({"v": [1.0, 2.0]}, index=pd.MultiIndex.from_tuples([("a", 1), ("b", 2)], names=["x", "y"])),
        "frame-empty": lambda: pd.DataFrame({"a": []}),
        "frame-dates": lambda: pd.DataFrame({"t": pd.to_datetime(["2020-01-01", "2020-01-02"]), "n": [1, 2]}),
        "partition": lambda: InMemoryPartition({"a": [1, 2], "b": "text", "c": np.array([1, 2, 3], dtype=np.int64)}),
        "partition-frames": lambda: InMemoryPartition({"x": pd.DataFrame({"a": [1, 2]}), "y": pd.Series([1.0, 2.0])}),
        "partition-empty": lambda: InMemoryPartition({}),
        "partition-nested": lambda: InMemoryPartition({"outer": 1, "inner": InMemoryPartition({"k": [1, 2, 3]})}),
        "partition-ondisk": _ondisk,
        # values that compare equal (==) but are different values / types: a store that identifies values by equality
        # instead of by their bytes hands back the wrong one
        "partition-equal-scalars": lambda: InMemoryPartition(_equal_scalars()),
        "dict-equal-scalars": lambda: _equal_scalars(),
        "list-equal-scalars": lambda: [v for _, v in sorted(_equal_scalars().items())],
    }
    return c


def _equal_scalars():
    import pandas as pd
    tz = dt.timezone(dt.timedelta(hours=5, minutes=30))
    return {"i1": 1, "f1": 1.0, "t": True, "i0": 0, "f0": 0.0, "nf0": -0.0, "fl": False,
            "dn": dt.datetime(2020, 1, 2, 3, 4, 5), "ts": pd.Timestamp("2020-01-02 03:04:05"),
            "u1": dt.datetime(2020, 1, 2, 3, 4, 5, tzinfo=dt.timezone.utc),
            "u2": dt.datetime(2020, 1, 2, 8, 34, 5, tzinfo=tz), "s1": "a", "s2": "a", "big": 2 ** 53, "bigf": float(2 ** 53)}


def _ondisk():
    import pandas as pd
    from twosigma.memento.storage_filesystem import OnDiskPartition
    p = OnDiskPartition()
    p["a"] = [1, 2, 3]
    p["b"] = pd.DataFrame({"q": [1.0, 2.0]})
    return p


_CAT = None


def kinds():
    global _CAT
    if _CAT is None:
        _CAT = _catalogue()
    return sorted(_CAT)


def build(kind, salt=0):
    """A fresh object of the given kind; salt > 0 wraps it so that distinct calls have distinct values."""
    global _CAT
    if _CAT is None:
        _CAT = _catalogue()
    v = _CAT[kind]()
    return v


def nest(kind_list):
    """list / dict nesting of catalogue values (non-partition kinds)"""
    return {"items": [build(k) for k in kind_list], "by_name": {k: build(k) for k in kind_list}}
