"""Generated user programs for the `evo` engine: model, renderer, edits, reference graph.

A program is a package `vp` of modules m0..mk holding memento functions, plain helpers and
module variables.  Everything the oracles need (which names a body mentions, what value a
call returns, which ingredient a list position stems from) is derivable from the model.
DESIGN.md 2.6."""
import copy
import json

PKG = "vp"


def pkg_of(prog, mi, base=None):
    """Package name of module mi: the main package, or its sibling <base>q for modules of the second package."""
    base = base or PKG
    return base + "q" if (prog.get("pkg") or [0] * len(prog["modules"]))[mi] else base


# ----------------------------------------------------------------------------- generation

def gen_program(rng, features=None, n_nodes=None, n_modules=None):
    F = features or {}
    n_modules = n_modules or rng.choice([1, 2, 2, 3])
    n_nodes = n_nodes or rng.randrange(3, 9)
    mods = ["m%d" % i for i in range(n_modules)]
    pkg = [0] * n_modules
    if n_modules >= 2 and rng.random() < F.get("p_two_packages", 0.0):
        for mi in range(rng.randrange(1, n_modules), n_modules):
            pkg[mi] = 1      # the highest modules form a second package: imported by the first, never the reverse
    glob = []
    for gi in range(rng.randrange(1, 4)):
        kind = rng.choice(["int", "list", "dict", "str", "float", "bool", "none"])
        glob.append({"id": gi, "name": "G%d" % gi, "module": rng.randrange(n_modules), "kind": kind,
                     "value": _gval(kind, 1)})
    if rng.random() < F.get("p_badglobal", 0.25):
        # a container the codec cannot encode (a set inside a list, a tuple as dictionary key): the library does not track
        # it, so it is never edited; functions read only its length.  It sits next to containers of the same type that ARE
        # tracked.
        kind = rng.choice(["badlist", "baddict"])
        glob.append({"id": len(glob), "name": "GB", "module": rng.randrange(n_modules), "kind": kind,
                     "value": {"badlist": 2, "baddict": 1}[kind], "src": {"badlist": "[1, {1}]", "baddict": "{(1, 2): 3}"}[kind]})
    nodes = []
    for i in range(n_nodes):
        # node 0 is always an auto-versioned memento root in module 0
        mod = 0 if i == 0 else rng.randrange(n_modules)
        kind = "memento" if i == 0 or rng.random() < 0.6 else "plain"
        nd = {"id": i, "name": ("f%d" if kind == "memento" else "h%d") % i, "module": mod, "kind": kind,
              "explicit": None, "salt": None, "const": 1, "nested": None, "setc": None, "tup": None, "fstr": None,
              "posdef": None, "kwdef": None, "globals": [], "calls": [], "recur": False, "nestkind": "lambda",
              "deco": None, "fparams": [], "builtin": None}
        if rng.random() < F.get("p_builtin", 0.2):
            nd["builtin"] = "abs"      # a builtin name the module may later shadow with its own definition
        if kind == "memento" and i != 0 and rng.random() < F.get("p_explicit", 0.15):
            nd["explicit"] = "v1"
        if kind == "memento" and nd["explicit"] is None and rng.random() < F.get("p_salt", 0.1):
            nd["salt"] = "s1"
        if kind == "memento" and i != 0 and nd["explicit"] is None and pkg[mod] == 0 and rng.random() < F.get("p_noauto", 0.08):
            # automatic dependency detection switched off: only what dependencies=[...] declares is tracked, so this
            # function names nothing but its declared (same-module) callees
            nd["noauto"] = True
            nd["builtin"] = None
        if rng.random() < F.get("p_nested", 0.5):
            nd["nested"] = 1
            nd["nestkind"] = rng.choice(["lambda", "listcomp", "genexp", "innerdef"])
        if rng.random() < F.get("p_setc", 0.35):
            nd["setc"] = 1
            if rng.random() < 0.4:
                nd["setck"] = "tup"     # the set constant holds tuples of strings instead of strings
        if rng.random() < F.get("p_tup", 0.35):
            nd["tup"] = 1
        if rng.random() < F.get("p_fstr", 0.3):
            nd["fstr"] = 1
        if rng.random() < F.get("p_posdef", 0.4):
            nd["posdef"] = 1
        if rng.random() < F.get("p_kwdef", 0.3):
            nd["kwdef"] = 1
        if rng.random() < F.get("p_recur", 0.15):
            nd["recur"] = True
        if rng.random() < 0.5:
            nd["declobj"] = True    # (only matters if the function declares dependencies)
        for g in glob:
            if nd.get("noauto"):
                break
            if g["module"] >= mod and pkg[g["module"]] == pkg[mod] and rng.random() < 0.35:
                nd["globals"].append(g["id"])
        if pkg[mod] == 1:
            # plain code of another package is invisible to the versions of this package's functions (by design):
            # nothing in the second package refers to a name that an edit could shadow later
            nd["builtin"] = None
        if pkg[mod] == 1 and kind == "plain":
            # a plain helper of the second package: code outside the caller's package is not tracked, so it is a
            # frozen leaf (no calls, no globals, never edited)
            nd["frozen"] = True
            nd["globals"] = []
            nd["recur"] = False
            nd["builtin"] = None
        nodes.append(nd)
    # two variables with the same name in different modules, read by one function through two prefixes (G and a1.G,
    # or a1.G and a2.G)
    if n_modules >= 2 and rng.random() < F.get("p_samename", 0.3):
        ma = rng.randrange(n_modules - 1)
        mb = rng.randrange(ma + 1, n_modules)
        if pkg[ma] == pkg[mb]:
            kind = rng.choice(["int", "str", "list"])
            ids = []
            for mm in (ma, mb):
                gid = len(glob)
                glob.append({"id": gid, "name": "GS", "module": mm, "kind": kind, "value": _gval(kind, 1 + len(ids))})
                ids.append(gid)
            readers = [nd for nd in nodes if nd["module"] <= ma and pkg[nd["module"]] == pkg[ma] and not nd.get("frozen") and not nd.get("noauto")]
            if readers:
                rd = readers[rng.randrange(len(readers))]
                rd["globals"] = [g for g in rd["globals"] if g not in ids] + ids
    if rng.random() < F.get("p_prefixname", 0.3) and len(nodes) >= 3:
        # one function's name is the beginning of another's (f1 / f10), and likewise for two variables (G0 / G00)
        i = rng.randrange(1, len(nodes))
        j = rng.choice([k for k in range(1, len(nodes)) if k != i])
        if not nodes[j].get("frozen") and not nodes[i].get("frozen"):
            nodes[j]["name"] = nodes[i]["name"] + "0"
        plain_g = [g for g in glob if g["name"].startswith("G") and g["name"] != "GS" and not g.get("src")]
        if len(plain_g) >= 2:
            a, b = rng.sample(plain_g, 2)
            b["name"] = a["name"] + "0"
    for nd in nodes:
        if nd["kind"] == "plain" and not nd.get("frozen") and rng.random() < F.get("p_lambda", 0.35):
            nd["lam"] = True      # a plain helper written as a lambda bound to a name
    for nd in nodes:
        if not nd.get("frozen") and rng.random() < F.get("p_setdef", 0.15):
            nd["setdef"] = 1      # a default value the codec cannot encode (a set of strings): never edited, only hashed (or not)
    # call edges: i -> j with j > i and module(j) >= module(i)
    for i, nd in enumerate(nodes):
        if nd.get("frozen"):
            continue
        for j in range(i + 1, n_nodes):
            tj = nodes[j]
            if tj["module"] < nd["module"]:
                continue
            if nd.get("noauto"):
                if tj["module"] == nd["module"] and not tj.get("frozen") and rng.random() < F.get("p_edge", 0.45):
                    nd["calls"].append({"to": j, "form": "declared"})
                continue
            if rng.random() < F.get("p_edge", 0.45):
                form = "bare" if tj["module"] == nd["module"] else "attr"
                r = rng.random()
                if form == "bare" and r < F.get("p_alias", 0.12):
                    form = "alias"
                elif form == "bare" and r < F.get("p_alias", 0.12) + F.get("p_wrapped", 0.1):
                    form = "wrapped"      # reference through a functools.wraps decorator wrapper
                if tj["kind"] == "memento" and nd["explicit"] is None and r > 1 - F.get("p_hidden", 0.1):
                    form = "hidden"
                elif form == "bare" and nd["kind"] == "memento" and rng.random() < F.get("p_declared", 0.12):
                    # the callee is named only in dependencies=[...] of the decorator and called dynamically: a declared
                    # (required) dependency; the library resolves it when the caller is defined, so the callee comes first
                    form = "declared"
                c = {"to": j, "form": form}
                if form in ("bare", "attr", "alias", "wrapped") and rng.random() < F.get("p_argattr", 0.1):
                    # the reference sits inside the arguments of a call whose result is used through an attribute:
                    # list((g(x),)).pop()
                    c["argattr"] = True
                nd["calls"].append(c)
    # mutual recursion: a back edge j -> i (i < j, same module) closes a cycle through the forward edges; it passes
    # x - 1 and is taken only while x > 0, so every cycle terminates (forward edges pass x unchanged)
    if rng.random() < F.get("p_back", 0.3):
        for _ in range(rng.choice([1, 1, 2])):
            cands = [(b["id"], a["id"]) for a in nodes for b in nodes
                     if b["id"] > a["id"] and b["module"] == a["module"] and not b.get("frozen") and not a.get("frozen")
                     and not b.get("noauto") and not any(c["to"] == a["id"] for c in b["calls"])]
            if cands:
                j, i = cands[rng.randrange(len(cands))]
                nodes[j]["calls"].append({"to": i, "form": "bare", "back": True})
    # a memento function may receive another memento function as an argument and call it (legal), and may in
    # addition reach the same function through a hidden dynamic call (legal only when it was passed)
    for nd in nodes:
        if nd["kind"] == "memento" and nd["explicit"] is None and not nd.get("noauto") and rng.random() < F.get("p_fparam", 0.2):
            cands = [t["id"] for t in nodes if t["id"] > nd["id"] and t["module"] >= nd["module"] and t["kind"] == "memento"]
            if cands:
                j = cands[rng.randrange(len(cands))]
                nd["fparams"] = [j]
                if not any(c["to"] == j for c in nd["calls"]) and rng.random() < 0.6:
                    nd["calls"].append({"to": j, "form": "hidden"})
    # a nested scope may bind, as its own parameter / loop variable, the very name the outer body calls
    for nd in nodes:
        bare = [c["to"] for c in nd["calls"] if c["form"] == "bare"]
        if nd["nested"] is not None and bare and rng.random() < F.get("p_shadow", 0.25):
            nd["shadow"] = bare[rng.randrange(len(bare))]
    if rng.random() < F.get("p_twins", 0.2) and len(nodes) <= 8:
        # two plain helpers produced by ONE factory function (closures that differ in a default value only), both
        # used by one function
        callers = [nd for nd in nodes if pkg[nd["module"]] == 0 and not nd.get("frozen") and not nd.get("noauto") and nd["explicit"] is None]
        if callers:
            cal = callers[rng.randrange(len(callers))]
            for t in range(2):
                nid = len(nodes)
                nodes.append({"id": nid, "name": "h%d" % nid, "module": cal["module"], "kind": "plain", "explicit": None, "salt": None,
                              "const": 1 + t, "nested": None, "setc": None, "tup": None, "fstr": None, "posdef": None, "kwdef": None,
                              "globals": [], "calls": [], "recur": False, "nestkind": "lambda", "deco": None, "fparams": [],
                              "builtin": None, "made": True})
                cal["calls"].append({"to": nid, "form": "bare"})
    prog = {"modules": mods, "pkg": pkg, "nodes": nodes, "globals": glob, "order": {}, "bshadow": {}}
    if rng.random() < F.get("p_inith", 0.25):
        # a plain helper defined in the package's __init__.py, used by functions of its sub-modules
        users = [nd for nd in nodes if pkg[nd["module"]] == 0 and not nd.get("frozen") and nd["kind"] != "foreign" and not nd.get("noauto")]
        if users:
            prog["inith"] = {"const": 1}
            for nd in rng.sample(users, rng.randrange(1, min(3, len(users)) + 1)):
                nd["usesinit"] = True
    for mi in range(n_modules):
        prog["order"][str(mi)] = default_order(prog, mi)
    return prog


def _gval(kind, n):
    return {"int": n, "list": [n, "x"], "dict": {"a": n, "b": [n]}, "str": "g%d" % n, "float": n + 0.5,
            "bool": bool(n % 2), "none": None}[kind]


def bump_global(g, n):
    """A new distinct value of the same kind (none/bool cycle through other kinds of values)."""
    if g["kind"] == "none":
        return None if n % 2 == 0 else n
    if g["kind"] == "bool":
        return bool(n % 2)
    return _gval(g["kind"], n)


# ----------------------------------------------------------------------------- units and rendering

def units_of(prog, mi):
    """Ordered unit ids of module mi: ('g', gid) | ('n', nid) | ('a', caller_nid, callee_nid)"""
    us = [("g", g["id"]) for g in prog["globals"] if g["module"] == mi]
    if (prog.get("bshadow") or {}).get(str(mi)) is not None:
        us.append(("b", mi))
    for nd in prog["nodes"]:
        if nd["module"] == mi:
            us.append(("n", nd["id"]))
    for nd in prog["nodes"]:
        if nd["module"] == mi:
            for c in nd["calls"]:
                if c["form"] in ("alias", "wrapped"):
                    u = ("a" if c["form"] == "alias" else "w", c["to"])
                    if u not in us:
                        us.append(u)
    return us


def declared_first(prog, order):
    """Move every caller of a declared dependency behind its callee (and the caller's aliases / wrappers behind the
    caller): the library resolves dependencies=[...] while the caller is being defined."""
    order = [tuple(u) for u in order]
    for _ in range(len(order) * len(order) + 1):
        moved = False
        for nd in prog["nodes"]:
            for c in nd["calls"]:
                if c["form"] != "declared":
                    continue
                a, b = ("n", nd["id"]), ("n", c["to"])
                if a in order and b in order and order.index(a) < order.index(b):
                    order.remove(a)
                    order.insert(order.index(b) + 1, a)
                    moved = True
        for u in list(order):
            if u[0] in ("a", "w") and ("n", u[1]) in order and order.index(u) < order.index(("n", u[1])):
                order.remove(u)
                order.insert(order.index(("n", u[1])) + 1, u)
                moved = True
        if not moved:
            break
    return order


def cell_order(prog, units):
    """The order in which a user re-runs the cells of the given units: variables, then definitions by position, then
    aliases / wrappers - with every caller of a declared dependency behind its callee."""
    ordk = {"g": 0, "b": 0, "i": 0, "n": 1, "a": 2, "w": 2}
    return declared_first(prog, sorted((tuple(u) for u in units), key=lambda u: (ordk[u[0]], u[1])))


def default_order(prog, mi):
    us = units_of(prog, mi)
    # aliases must follow their target's definition
    out = [u for u in us if u[0] not in ("a", "w")]
    for u in us:
        if u[0] in ("a", "w"):
            out.insert(out.index(("n", u[1])) + 1, u)
    return [list(u) for u in declared_first(prog, out)]


def permuted_order(prog, mi, rng):
    us = [tuple(u) for u in default_order(prog, mi)]
    plain = [u for u in us if u[0] not in ("a", "w")]
    rng.shuffle(plain)
    out = list(plain)
    for u in us:
        if u[0] in ("a", "w"):
            out.insert(out.index(("n", u[1])) + 1 + rng.randrange(0, len(out) - out.index(("n", u[1]))), u)
    return [list(u) for u in declared_first(prog, out)]


def mod_alias(mi):
    return "a%d" % mi


def header(prog, mi, base=None):
    lines = ["import twosigma.memento as m", "import functools as _vft", "",
             "def _vdeco(fn):", "    @_vft.wraps(fn)", "    def wrapper(*a, **k):", "        return fn(*a, **k)", "    return wrapper", "",
             "def _vmk(n, c):", "    def made(x, n=n, k=c):", "        __vtrace__(n, x)", "        return [n, x, k]", "    return made", ""]
    if prog.get("inith") and any(nd.get("usesinit") and nd["module"] == mi for nd in prog["nodes"]):
        lines.append("from . import hinit")
    for mj in range(mi + 1, len(prog["modules"])):
        if pkg_of(prog, mj) == pkg_of(prog, mi):
            lines.append("from . import %s as %s" % (prog["modules"][mj], mod_alias(mj)))
        else:
            lines.append("from %sq import %s as %s" % (base or PKG, prog["modules"][mj], mod_alias(mj)))
    return "\n".join(lines) + "\n"


def render_global(prog, gid):
    g = prog["globals"][gid]
    if g.get("src"):
        return "%s = %s\n" % (g["name"], g["src"])
    return "%s = %s\n" % (g["name"], repr(g["value"]))


def render_alias(prog, callee):
    t = prog["nodes"][callee]
    return "al_%s = %s\n" % (t["name"], t["name"])


def render_wrapped(prog, callee):
    t = prog["nodes"][callee]
    return "w_%s = _vdeco(%s)\n" % (t["name"], t["name"])


def call_expr(prog, nd, c):
    if c.get("argattr"):
        return "list((%s,)).pop()" % call_expr(prog, nd, dict(c, argattr=False))
    if c.get("back"):
        return "(%s if x > 0 else None)" % call_expr(prog, nd, dict(c, back=False)).replace("(x)", "(x - 1)")
    t = prog["nodes"][c["to"]]
    if c["form"] == "bare":
        return "%s(x)" % t["name"]
    if c["form"] == "attr":
        return "%s.%s(x)" % (mod_alias(t["module"]), t["name"])
    if c["form"] == "alias":
        return "al_%s(x)" % t["name"]
    if c["form"] == "wrapped":
        return "w_%s(x)" % t["name"]
    if c["form"] == "declared":
        return 'globals()["%s"](x)' % t["name"]
    if c["form"] == "hidden":
        if t["module"] == nd["module"]:
            return 'globals()["%s"](x)' % t["name"]
        suffix = "" if pkg_of(prog, t["module"]) == pkg_of(prog, nd["module"]) else "q"
        return 'getattr(__import__("sys").modules[__name__.rsplit(".", 1)[0] + "%s.%s"], "%s")(x)' % (
            suffix, prog["modules"][t["module"]], t["name"])
    raise ValueError(c)


def layout(prog, nid):
    """Labels of the positions of the value list returned by node nid (after name and x)."""
    nd = prog["nodes"][nid]
    lab = ["const"]
    if nd["posdef"] is not None:
        lab.append("posdef")
    if nd["kwdef"] is not None:
        lab.append("kwdef")
    if nd["nested"] is not None:
        lab.append("nested")
    if nd["setc"] is not None:
        lab.append("setc")
    if nd["tup"] is not None:
        lab.append("tup")
    if nd["fstr"] is not None:
        lab.append("fstr")
    for gid in nd["globals"]:
        lab.append("global:%d" % gid)
    for c in nd["calls"]:
        lab.append("call:%d:%s" % (c["to"], c["form"]))
    for j in nd.get("fparams") or []:
        lab.append("param:%d" % j)
    if nd.get("builtin"):
        lab.append("builtin")
    if nd.get("usesinit"):
        lab.append("inith")
    if nd["recur"]:
        lab.append("recur")
    return lab


def nodes_name(prog, nid):
    return prog["nodes"][nid]["name"] if nid is not None and nid < len(prog["nodes"]) else None


def render_node(prog, nid, decorator="m.memento_function"):
    nd = prog["nodes"][nid]
    if nd["kind"] == "foreign":
        return '%s = __import__("operator").neg\n' % nd["name"]
    if nd.get("made") and nd["kind"] == "plain":
        return '%s = _vmk("%s", %d)\n' % (nd["name"], nd["name"], nd["const"])
    params = ["x"]
    if nd["posdef"] is not None:
        params.append("y=%d" % nd["posdef"])
    if nd.get("setdef"):
        params.append('s={"sa", "sb", "sc"}')
    for j in nd.get("fparams") or []:
        params.append("p%d=None" % j)
    if nd["kwdef"] is not None:
        params.append("*, k=%d" % nd["kwdef"])
    lines = []
    if nd["kind"] == "memento":
        args = []
        if nd["explicit"] is not None:
            args.append("version=%r" % nd["explicit"])
        if nd["salt"] is not None:
            args.append("version_salt=%r" % nd["salt"])
        if nd.get("noauto"):
            args.append("auto_dependencies=False")
        decl = [prog["nodes"][c["to"]]["name"] for c in nd["calls"] if c["form"] == "declared"]
        if decl:
            # (as strings naming the functions, or as the function objects themselves - the library keeps "module:name")
            byobj = set(prog["nodes"][c["to"]]["name"] for c in nd["calls"] if c["form"] == "declared" and nd.get("declobj")
                        and prog["nodes"][c["to"]]["kind"] == "memento")
            args.append("dependencies=[%s]" % ", ".join(('%s' if d in byobj else '"%s"') % d for d in decl))
        lines.append("@%s%s" % (decorator, "(%s)" % ", ".join(args) if args else ""))
    lines.append("def %s(%s):" % (nd["name"], ", ".join(params)))
    lines.append('    __vtrace__("%s", x)' % nd["name"])
    if nd["recur"]:
        lines.append("    if x <= 0:")
        lines.append('        return ["%s", "base", %d]' % (nd["name"], nd["const"]))
    items = ['"%s"' % nd["name"], "x", str(nd["const"])]
    if nd["posdef"] is not None:
        items.append("y")
    if nd["kwdef"] is not None:
        items.append("k")
    if nd["nested"] is not None:
        nk = nd["nestkind"]
        sh = nd.get("shadow")
        if sh is not None and not any(c["to"] == sh and c["form"] == "bare" for c in nd["calls"]):
            sh = None   # only shadow a name the outer body really refers to (otherwise the name is just a parameter name)
        v = nodes_name(prog, sh) if sh is not None else None
        if nk == "lambda":
            items.append("(lambda %s: %s)(%d)" % (v, v, nd["nested"]) if v else "(lambda: %d)()" % nd["nested"])
        elif nk == "listcomp":
            items.append("[%s + %d for %s in (1,)]" % (v or "i", nd["nested"], v or "i"))
        elif nk == "genexp":
            items.append("sum(%s + %d for %s in (1,))" % (v or "i", nd["nested"], v or "i"))
        else:
            if v:
                lines.append("    def inner(%s=%d):" % (v, nd["nested"]))
                lines.append("        return %s" % v)
            else:
                lines.append("    def inner():")
                lines.append("        return %d" % nd["nested"])
            items.append("inner()")
    if nd["setc"] is not None:
        if nd.get("setck") == "tup":
            items.append('("s%d" if ("a", "s%d") in {("a", "s%d"), ("b", "t"), ("c", "u"), ("d", "v")} else "no")' % (nd["setc"], nd["setc"], nd["setc"]))
        else:
            items.append('("s%d" if "s%d" in {"s%d", "t"} else "no")' % (nd["setc"], nd["setc"], nd["setc"]))
    if nd["tup"] is not None:
        items.append("list((%d, 1))" % nd["tup"])
    if nd["fstr"] is not None:
        items.append('f"p{x}q%d"' % nd["fstr"])
    for gid in nd["globals"]:
        g = prog["globals"][gid]
        ref = g["name"] if g["module"] == nd["module"] else "%s.%s" % (mod_alias(g["module"]), g["name"])
        items.append("len(%s)" % ref if g.get("src") else ref)
    for c in nd["calls"]:
        items.append(call_expr(prog, nd, c))
    for j in nd.get("fparams") or []:
        items.append("(p%d(x) if p%d is not None else None)" % (j, j))
    if nd.get("builtin"):
        items.append("abs(x)")
    if nd.get("usesinit"):
        items.append("hinit(x)")
    if nd["recur"]:
        items.append("%s(x - 1)" % nd["name"])
    if nd.get("lam") and nd["kind"] == "plain" and not nd["recur"] and not (nd["nested"] is not None and nd["nestkind"] == "innerdef"):
        return '%s = lambda %s: (__vtrace__("%s", x), [%s])[1]\n' % (nd["name"], ", ".join(params), nd["name"], ", ".join(items))
    lines.append("    return [%s]" % ", ".join(items))
    return "\n".join(lines) + "\n"


def render_init(prog):
    if not prog.get("inith"):
        return ""
    return 'def hinit(x):\n    return ["hinit", x, %d]\n' % prog["inith"]["const"]


def render_bshadow(prog, mi):
    return 'def abs(a):\n    return ["abs", a, %d]\n' % prog["bshadow"][str(mi)]


def render_unit(prog, u):
    u = tuple(u)
    if u[0] == "b":
        return render_bshadow(prog, u[1])
    if u[0] == "g":
        return render_global(prog, u[1])
    if u[0] == "n":
        return render_node(prog, u[1])
    if u[0] == "w":
        return render_wrapped(prog, u[1])
    return render_alias(prog, u[1])


def render_module(prog, mi, order=None, base=None):
    order = order or prog["order"][str(mi)]
    # units added by edits after the order was fixed go last
    known = [tuple(u) for u in order]
    for u in units_of(prog, mi):
        if u not in known:
            if u[0] in ("a", "w"):
                known.insert(known.index(("n", u[1])) + 1, u)
            else:
                known.append(u)
    known = declared_first(prog, known)
    live = set(units_of(prog, mi))
    parts = [header(prog, mi, base)]
    for u in known:
        if u in live:
            parts.append(render_unit(prog, u))
    return "\n".join(parts)


def write_package(prog, srcdir, pkg=None, orders=None):
    import os
    base = pkg or PKG
    for mi, name in enumerate(prog["modules"]):
        d = os.path.join(srcdir, pkg_of(prog, mi, base))
        os.makedirs(d, exist_ok=True)
        init = os.path.join(d, "__init__.py")
        if pkg_of(prog, mi, base) == base:
            with open(init, "w") as f:
                f.write(render_init(prog))
        elif not os.path.exists(init):
            open(init, "w").close()
        with open(os.path.join(d, name + ".py"), "w") as f:
            f.write(render_module(prog, mi, order=(orders or {}).get(str(mi)), base=base))


# ----------------------------------------------------------------------------- reference semantics

def evaluate(prog, nid, x, y=None, depth=0, fnargs=None):
    """What an un-memoized execution returns (used for classification and for C14's expected
    outcome; the C01 oracle itself runs real Python)."""
    nd = prog["nodes"][nid]
    if nd["kind"] == "foreign":
        return -x
    if nd["recur"] and x <= 0:
        return [nd["name"], "base", nd["const"]]
    out = [nd["name"], x, nd["const"]]
    if nd["posdef"] is not None:
        out.append(nd["posdef"])
    if nd["kwdef"] is not None:
        out.append(nd["kwdef"])
    if nd["nested"] is not None:
        out.append({"lambda": nd["nested"], "listcomp": [1 + nd["nested"]], "genexp": 1 + nd["nested"],
                    "innerdef": nd["nested"]}[nd["nestkind"]])
    if nd["setc"] is not None:
        out.append("s%d" % nd["setc"])
    if nd["tup"] is not None:
        out.append([nd["tup"], 1])
    if nd["fstr"] is not None:
        out.append("p%dq%d" % (x, nd["fstr"]))
    for gid in nd["globals"]:
        out.append(copy.deepcopy(prog["globals"][gid]["value"]))
    for c in nd["calls"]:
        if c.get("back"):
            out.append(evaluate(prog, c["to"], x - 1, depth=depth + 1) if x > 0 else None)
        else:
            out.append(evaluate(prog, c["to"], x, depth=depth + 1))
    for j in nd.get("fparams") or []:
        out.append(evaluate(prog, j, x, depth=depth + 1) if fnargs and j in fnargs else None)
    if nd.get("builtin"):
        sh = (prog.get("bshadow") or {}).get(str(nd["module"]))
        out.append(["abs", x, sh] if sh is not None else abs(x))
    if nd.get("usesinit"):
        out.append(["hinit", x, prog["inith"]["const"]])
    if nd["recur"]:
        out.append(evaluate(prog, nid, x - 1, depth=depth + 1))
    return out


def visible_refs(prog, nid):
    """Nodes whose names the body of nid mentions (hidden edges excluded)."""
    nd = prog["nodes"][nid]
    out = []
    if nd["kind"] == "foreign":
        return out      # code of another package is not tracked
    for c in nd["calls"]:
        if c["form"] != "hidden" and c["to"] not in out:
            out.append(c["to"])
    if nd["recur"] and nid not in out:
        out.append(nid)
    return out


def closure_memento(prog, nid):
    """Memento nodes reachable from nid through memento and plain nodes (nid itself excluded unless
    reached through a cycle - the library excludes the function itself)."""
    seen = set()
    stack = list(visible_refs(prog, nid))
    while stack:
        j = stack.pop()
        if j in seen:
            continue
        seen.add(j)
        stack.extend(visible_refs(prog, j))
    return sorted(j for j in seen if prog["nodes"][j]["kind"] == "memento" and j != nid)


def direct_memento(prog, nid):
    return sorted(j for j in visible_refs(prog, nid) if prog["nodes"][j]["kind"] == "memento" and j != nid)


def memento_edges(prog, root):
    """Edges (m, m') among memento nodes reachable from root: path from m to m' whose interior is plain."""
    reach = set([root] + closure_memento(prog, root))
    edges = set()
    for m_ in reach:
        seen = set()
        stack = list(visible_refs(prog, m_))
        while stack:
            j = stack.pop()
            if j in seen:
                continue
            seen.add(j)
            if prog["nodes"][j]["kind"] == "memento":
                if j != m_:
                    edges.add((m_, j))
            else:
                stack.extend(visible_refs(prog, j))
    return sorted(edges)


def expected_outcome(prog, nid, x, fnargs=None):
    """'ude' if executing nid(x) un-memoized would hit a hidden call outside the closure of the nearest
    auto-versioned memento frame (and not reachable from that frame's own arguments), else 'value'."""
    def walk(j, xx, frame, depth, outer):
        # outer: still inside the outermost invocation (the only one that received function arguments)
        nd = prog["nodes"][j]
        if nd["kind"] == "foreign":
            return False
        if nd["kind"] == "memento":
            frame = j
            if depth > 0:
                outer = False
        if nd["recur"] and xx <= 0:
            return False
        for c in nd["calls"]:
            t = prog["nodes"][c["to"]]
            if c.get("back") and xx <= 0:
                continue
            if t["kind"] == "memento" and frame is not None:
                fr = prog["nodes"][frame]
                passed = bool(fnargs) and outer and c["to"] in fnargs
                if fr["explicit"] is None and c["to"] != frame and c["to"] not in closure_memento(prog, frame) and not passed:
                    return True
            if walk(c["to"], xx - 1 if c.get("back") else xx, frame, depth + 1, outer):
                return True
        if outer and fnargs and j == nid:
            for pj in nd.get("fparams") or []:
                if pj in fnargs and walk(pj, xx, frame, depth + 1, outer):
                    return True
        if nd["recur"] and depth < 8 and walk(j, xx - 1, frame, depth + 1, outer):
            return True
        return False
    return "ude" if walk(nid, x, None, 0, True) else "value"


def classify(prog_now, nid, got, exp, depth=0):
    """First position where got differs from exp, as an ingredient label path."""
    nd = prog_now["nodes"][nid]
    if not isinstance(got, list) or not isinstance(exp, list):
        return "non-list"
    if len(got) != len(exp):
        return "shape"
    if len(exp) == 3 and exp[1] == "base":
        return "const" if got != exp else None
    lab = ["name", "x"] + layout(prog_now, nid)
    for i, (a, b) in enumerate(zip(got, exp)):
        if a != b:
            la = lab[i] if i < len(lab) else "?"
            if la.startswith("call:") and depth < 6:
                _, to, form = la.split(":")
                sub = classify(prog_now, int(to), a, b, depth + 1)
                kind = prog_now["nodes"][int(to)]["kind"]
                return "%s-%s.%s" % (form, "callee" if kind == "memento" else "helper", sub)
            if la.startswith("param:") and depth < 6:
                return "param-callee." + str(classify(prog_now, int(la.split(":")[1]), a, b, depth + 1))
            if la == "recur":
                return "recur." + str(classify(prog_now, nid, a, b, depth + 1))
            if la.startswith("global:"):
                return "global"
            return la
    return None


# ----------------------------------------------------------------------------- edits

EDIT_KINDS = ["const", "nested", "setc", "tup", "fstr", "posdef", "kwdef", "global", "add_edge", "del_edge",
              "retarget", "swap_kind", "salt", "explicit_body", "insert_helper", "toggle_recur", "define_builtin", "inith"]


def gen_edit(rng, prog, counter, weights=None):
    """Returns an edit dict (absolute values, so that edits commute with dropping others) or None."""
    nodes = prog["nodes"]
    for _ in range(20):
        w = list(weights or [4, 2, 2, 1, 1, 3, 3, 3, 1.5, 1.5, 1, 1, 0.5, 1, 0.7, 0.3])
        w = (w + [1.2] * len(EDIT_KINDS))[:len(EDIT_KINDS)]
        kind = rng.choices(EDIT_KINDS, w)[0]
        nd = nodes[rng.randrange(len(nodes))]
        if nd.get("noauto") and kind in ("swap_kind", "insert_helper", "retarget"):
            continue
        if nd.get("made") and kind not in ("const", "global", "add_edge", "del_edge", "retarget", "explicit_body", "define_builtin", "inith"):
            continue
        if nd.get("frozen") or (kind in ("swap_kind", "insert_helper", "toggle_recur") and (prog.get("pkg") or [0])[min(nd["module"], len(prog.get("pkg") or [0]) - 1)]):
            continue
        v = counter + 2
        if kind == "inith":
            if not prog.get("inith"):
                continue
            return {"kind": "inith", "value": v}
        if kind == "define_builtin":
            users = [n for n in nodes if n.get("builtin") and not n.get("frozen")]
            if not users:
                continue
            return {"kind": "define_builtin", "module": users[rng.randrange(len(users))]["module"], "value": v}
        if kind in ("const",):
            return {"kind": kind, "node": nd["id"], "value": v}
        if kind in ("nested", "setc", "tup", "fstr", "posdef", "kwdef"):
            if nd[kind] is None and rng.random() < 0.7:
                continue
            return {"kind": kind, "node": nd["id"], "value": v}
        if kind == "global" and prog["globals"]:
            g = prog["globals"][rng.randrange(len(prog["globals"]))]
            if g.get("src"):
                continue
            how = rng.choice(["rebind", "rebind", "mutate"]) if g["kind"] in ("list", "dict") else "rebind"
            return {"kind": "global", "gid": g["id"], "value": bump_global(g, v) if how == "rebind" else None,
                    "how": how, "n": v}
        if kind == "add_edge":
            cands = [(a["id"], b["id"]) for a in nodes for b in nodes
                     if b["id"] > a["id"] and b["module"] >= a["module"] and not any(c["to"] == b["id"] for c in a["calls"])
                     and not reaches(prog, b["id"], a["id"]) and not a.get("frozen") and not a.get("made")
                     and (pkg_of(prog, a["module"]) == pkg_of(prog, b["module"]) or b["kind"] == "memento" or b.get("frozen"))]
            if not cands:
                continue
            a, b = cands[rng.randrange(len(cands))]
            form = "bare" if nodes[a]["module"] == nodes[b]["module"] else "attr"
            if nodes[b]["kind"] == "memento" and nodes[a]["explicit"] is None and rng.random() < 0.15:
                form = "hidden"
            if nodes[a].get("noauto"):
                if nodes[a]["module"] != nodes[b]["module"] or nodes[b]["kind"] == "foreign":
                    continue
                form = "declared"
            return {"kind": "add_edge", "node": a, "to": b, "form": form}
        if kind in ("del_edge", "retarget"):
            cands = [(a["id"], c["to"]) for a in nodes for c in a["calls"]]
            if not cands:
                continue
            a, b = cands[rng.randrange(len(cands))]
            if kind == "retarget" and nodes[a].get("noauto"):
                continue
            if kind == "del_edge":
                return {"kind": "del_edge", "node": a, "to": b}
            new = [t["id"] for t in nodes if t["id"] > a and t["module"] >= nodes[a]["module"]
                   and not any(c["to"] == t["id"] for c in nodes[a]["calls"]) and not reaches(prog, t["id"], a)
                   and (pkg_of(prog, nodes[a]["module"]) == pkg_of(prog, t["module"]) or t["kind"] == "memento" or t.get("frozen"))]
            if not new:
                continue
            t = new[rng.randrange(len(new))]
            return {"kind": "retarget", "node": a, "to": b, "new": t,
                    "form": "bare" if nodes[a]["module"] == nodes[t]["module"] else "attr"}
        if kind == "swap_kind" and nd["id"] != 0:
            # memento <-> plain, or the name is bound to a callable the library has no hash rule for (a function of another
            # package) and later to a function of the program again
            r = rng.random()
            # (not for a name that is the target of a declared dependency - the library insists on resolving those - nor for
            # a recursive function: its own definition would be decorated while its name is bound to the untracked object)
            declared_target = any(c["to"] == nd["id"] and c["form"] == "declared" for a in nodes for c in a["calls"]) \
                or in_cycle(prog, nd["id"])
            if nd["kind"] == "memento" and any(a.get("declobj") and any(
                    c["to"] == nd["id"] and c["form"] == "declared" for c in a["calls"]) for a in nodes):
                # the function is named as an OBJECT in dependencies=[...] of some caller: once it is plain, the caller's OLD
                # definition - still bound until its own cell is re-run - holds a declared dependency that no longer names a
                # memento function, and every decorator that reaches it meanwhile (the caller's own when it can reach itself,
                # or that of any function defined before it) fails (DESIGN 9.3, observation b)
                continue
            if nd["kind"] == "memento":
                to = "plain" if r < 0.7 or declared_target else "foreign"
            elif nd["kind"] == "plain":
                to = "memento" if r < 0.75 or declared_target else "foreign"
            else:
                # back to a memento function only: re-binding an untracked name to a PLAIN function is noticed by nothing
                # (no rule existed, no registration happens) - outside the events the statements list
                to = "memento"
            return {"kind": "swap_kind", "node": nd["id"], "to_kind": to}
        if kind == "salt" and nd["kind"] == "memento" and nd["explicit"] is None:
            return {"kind": "salt", "node": nd["id"], "value": "s%d" % v}
        if kind == "explicit_body":
            ex = [n for n in nodes if n["kind"] == "memento" and n["explicit"] is not None]
            if not ex:
                continue
            e = ex[rng.randrange(len(ex))]
            return {"kind": "const", "node": e["id"], "value": v}
        if kind == "toggle_recur":
            if nd["kind"] == "foreign":
                continue    # (same exclusion as in swap_kind: a recursive definition decorated while its name is untracked)
            return {"kind": "toggle_recur", "node": nd["id"], "value": not nd["recur"]}
        if kind == "insert_helper":
            cands = [(a["id"], c["to"]) for a in nodes for c in a["calls"] if c["form"] in ("bare", "attr")
                     and pkg_of(prog, a["module"]) == PKG and pkg_of(prog, nodes[c["to"]]["module"]) == PKG]
            if not cands or len(nodes) >= 10:
                continue
            a, b = cands[rng.randrange(len(cands))]
            return {"kind": "insert_helper", "node": a, "to": b, "value": v}
    return {"kind": "const", "node": 0, "value": counter + 2}


def in_cycle(prog, nid):
    """True if the function can reach itself (self-recursion or mutual recursion)."""
    nd = prog["nodes"][nid]
    return bool(nd["recur"]) or any(reaches(prog, c["to"], nid) for c in nd["calls"])


def reaches(prog, a, b):
    """True if node b is reachable from node a along call edges (any form)."""
    seen = set()
    stack = [a]
    while stack:
        j = stack.pop()
        if j == b:
            return True
        if j in seen:
            continue
        seen.add(j)
        stack.extend(c["to"] for c in prog["nodes"][j]["calls"])
    return False


def apply_edit(prog, e):
    """Returns (new_prog, touched) where touched = set of units to re-deliver: ('n',id) / ('g',id) / ('a',id)."""
    p = copy.deepcopy(prog)
    nodes = p["nodes"]
    touched = set()
    k = e["kind"]
    if k in ("const", "nested", "setc", "tup", "fstr", "posdef", "kwdef", "salt"):
        nodes[e["node"]][k] = e["value"]
        touched.add(("n", e["node"]))
    elif k == "inith":
        p["inith"]["const"] = e["value"]
        touched.add(("i", 0))
    elif k == "set_explicit":
        # the user edits an explicitly versioned function and chooses the new version string (crafted histories)
        nodes[e["node"]]["explicit"] = e["value"]
        nodes[e["node"]]["const"] = e["const"]
        touched.add(("n", e["node"]))
    elif k == "define_builtin":
        p.setdefault("bshadow", {})[str(e["module"])] = e["value"]
        touched.add(("b", e["module"]))
    elif k == "global":
        g = p["globals"][e["gid"]]
        if e["how"] == "rebind":
            g["value"] = e["value"]
        else:
            if isinstance(g["value"], list):
                g["value"] = g["value"] + [e["n"]]
            elif isinstance(g["value"], dict):
                g["value"] = dict(g["value"], **{"z%d" % e["n"]: e["n"]})
            else:
                g["value"] = bump_global(g, e["n"])
        touched.add(("g", e["gid"]))
    elif k == "add_edge":
        a = nodes[e["node"]]
        if e["to"] < len(nodes) and not any(c["to"] == e["to"] for c in a["calls"]) and e["to"] != e["node"] \
                and nodes[e["to"]]["module"] >= a["module"] and not reaches(p, e["to"], e["node"]):
            form = e["form"]
            if a.get("noauto"):
                form = "declared"
            if form == "hidden" and (nodes[e["to"]]["kind"] != "memento" or a["explicit"] is not None):
                form = "bare" if nodes[e["to"]]["module"] == a["module"] else "attr"
            a["calls"].append({"to": e["to"], "form": form})
            touched.add(("n", e["node"]))
    elif k == "del_edge":
        a = nodes[e["node"]]
        n0 = len(a["calls"])
        a["calls"] = [c for c in a["calls"] if c["to"] != e["to"]]
        if len(a["calls"]) != n0:
            touched.add(("n", e["node"]))
    elif k == "retarget":
        a = nodes[e["node"]]
        for c in a["calls"]:
            if c["to"] == e["to"] and e["new"] < len(nodes) and not any(c2["to"] == e["new"] for c2 in a["calls"]) \
                    and not reaches(p, e["new"], e["node"]):
                c["to"] = e["new"]
                c["form"] = e["form"]
                touched.add(("n", e["node"]))
                break
    elif k == "swap_kind":
        nd = nodes[e["node"]]
        if nd["kind"] != e["to_kind"]:
            nd["kind"] = e["to_kind"]
            if nd["kind"] == "foreign":
                for a in nodes:
                    for c in a["calls"]:
                        if c["to"] == nd["id"] and c["form"] == "declared":
                            c["form"] = "bare"       # a declared dependency must resolve to something the library can hash
                            touched.add(("n", a["id"]))
            # a caller that names this function as an object in dependencies=[...] names it as a string while it is plain (the
            # library accepts only memento functions as objects): its text changes either way
            for a in nodes:
                if a.get("declobj") and any(c["to"] == nd["id"] and c["form"] == "declared" for c in a["calls"]):
                    touched.add(("n", a["id"]))
            if nd["kind"] in ("plain", "foreign"):
                nd["explicit"] = None
                nd["salt"] = None
                nd["fparams"] = []
                for c in nd["calls"]:
                    if c["form"] == "declared":     # a plain function has no decorator to declare dependencies in
                        c["form"] = "bare"
                # a plain function cannot be passed as an argument to a memento function
                for a in nodes:
                    if nd["id"] in (a.get("fparams") or []):
                        a["fparams"] = [j for j in a["fparams"] if j != nd["id"]]
                        touched.add(("n", a["id"]))
                # hidden edges need a memento target
                for a in nodes:
                    for c in a["calls"]:
                        if c["to"] == nd["id"] and c["form"] == "hidden":
                            c["form"] = "bare" if a["module"] == nd["module"] else "attr"
                            touched.add(("n", a["id"]))
            touched.add(("n", e["node"]))
    elif k == "toggle_recur":
        nodes[e["node"]]["recur"] = e["value"]
        touched.add(("n", e["node"]))
    elif k == "insert_helper":
        a = nodes[e["node"]]
        for c in a["calls"]:
            if c["to"] == e["to"] and c["form"] in ("bare", "attr"):
                t = nodes[e["to"]]
                nid = len(nodes)
                # the helper lives in the caller's module, so every reference stays forward
                h = {"id": nid, "name": "h%d" % nid, "module": a["module"], "kind": "plain", "explicit": None, "salt": None,
                     "const": e["value"], "nested": None, "setc": None, "tup": None, "fstr": None, "posdef": None,
                     "kwdef": None, "globals": [], "calls": [{"to": e["to"], "form": "bare" if t["module"] == a["module"] else "attr"}],
                     "recur": False, "nestkind": "lambda", "deco": None, "fparams": [], "builtin": None}
                nodes.append(h)
                c["to"] = nid
                c["form"] = "bare"
                touched.add(("n", nid))
                touched.add(("n", e["node"]))
                break
    # aliases of touched nodes have to be re-bound (user discipline, see DESIGN 4/C13)
    for u in list(touched):
        if u[0] == "n" and u[1] < len(nodes):
            for a in nodes:
                for c in a["calls"]:
                    if c["form"] == "alias" and c["to"] == u[1]:
                        touched.add(("a", u[1]))
                    if c["form"] == "wrapped" and c["to"] == u[1]:
                        touched.add(("w", u[1]))
    return p, touched


def explicit_bumps(prog, touched_nodes, counter):
    """User discipline: an edit inside the true closure of an explicitly versioned function bumps its version."""
    out = []
    for e in prog["nodes"]:
        if e["kind"] == "memento" and e["explicit"] is not None:
            reach = set([e["id"]])
            stack = [e["id"]]
            while stack:
                j = stack.pop()
                for c in prog["nodes"][j]["calls"]:
                    if c["to"] not in reach:
                        reach.add(c["to"])
                        stack.append(c["to"])
            if reach & set(touched_nodes):
                out.append(e["id"])
    return out


def init_users(prog):
    return [nd["id"] for nd in prog["nodes"] if nd.get("usesinit")]


def global_users(prog, gid):
    return [nd["id"] for nd in prog["nodes"] if gid in nd["globals"]]


def builtin_users(prog, mi):
    return [nd["id"] for nd in prog["nodes"] if nd.get("builtin") and nd["module"] == mi]


def dumps(prog):
    return json.dumps(prog, sort_keys=True)
