"""Filesystem seam: audit hook (before every FS operation) + write proxy (mid-write faults).

No change to /repo: the hook sees whatever Python API the library uses.  See DESIGN.md 2.4.
The seam is process-global and inert until arm() is called (in a lifetime child)."""
import builtins
import errno
import io
import os
import sys

CRASH_CODE = 137

# audit event -> (index of the affected path, index of its dir_fd or None)
_MUT = {
    "os.mkdir": (0, 2), "os.remove": (0, 1), "os.rmdir": (0, 1), "os.truncate": (0, None),
    "os.link": (1, 3), "os.symlink": (1, 2), "os.chmod": (0, 2), "os.utime": (0, 3),
    "os.chown": (0, 3), "os.rename": (0, 2), "shutil.rmtree": (0, 1), "os.mkfifo": (0, 2),
    "os.mknod": (0, 3),
}
_READ = {"os.scandir": 0, "os.listdir": 0}
_WFLAGS = os.O_WRONLY | os.O_RDWR | os.O_CREAT | os.O_TRUNC | os.O_APPEND

ERRNOS = {"ENOSPC": errno.ENOSPC, "EACCES": errno.EACCES, "EIO": errno.EIO, "EFBIG": errno.EFBIG,
          "EROFS": errno.EROFS, "EMFILE": errno.EMFILE}


class State:
    def __init__(self):
        self.roots = []          # absolute path prefixes under simulation
        self.n = 0               # mutation event counter
        self.reads = 0           # read-open + listing events under the roots
        self.log = []            # (n, kind, relpath)
        self.plan = {}           # k -> fault dict
        self.fired = []          # faults that actually fired
        self.intolerant = None   # list collecting mutation events (C19) or None
        self.armed_open = None   # (path, fault) to apply when the open returns
        self.active = False
        self.read_plan = None    # reported I/O errors on reads: {"match": substring, "nth": n} rules and / or {"p", "max", "rng"}
        self.read_counts = {}
        self.read_fired = []     # (read event number, relpath, rule)


S = State()
_installed = False
_real_open = io.open
_real_os_open = os.open
_fd_paths = {}


def _resolve(path, dir_fd=None):
    try:
        if isinstance(path, int):
            return os.readlink("/proc/self/fd/%d" % path)
        p = os.fspath(path)
        if isinstance(p, bytes):
            p = p.decode()
        if isinstance(dir_fd, int) and dir_fd >= 0 and not os.path.isabs(p):
            p = os.path.join(os.readlink("/proc/self/fd/%d" % dir_fd), p)
        if not os.path.isabs(p):
            p = os.path.join(os.getcwd(), p)
        return os.path.normpath(p)
    except (OSError, TypeError, ValueError):
        return None


def _rel(p):
    for i, r in enumerate(S.roots):
        if p == r or p.startswith(r + "/"):
            return "%d:%s" % (i, p[len(r):])
    return None


def _hook(ev, args):
    if not S.active:
        return
    if ev == "open":
        path, mode, flags = args
        if not isinstance(flags, int):
            return
        p = _resolve(path)
        if not p:
            return
        rel = _rel(p)
        if rel is None:
            return
        if not (flags & _WFLAGS):
            S.reads += 1
            if S.read_plan is not None:
                _read_fault(rel)
            return
        kind = "open-w"
    elif ev in _MUT:
        ai, di = _MUT[ev]
        dir_fd = args[di] if di is not None and len(args) > di else None
        p = _resolve(args[ai], dir_fd)
        if not p:
            return
        rel = _rel(p)
        if rel is None and ev == "os.rename":
            p2 = _resolve(args[1], args[3] if len(args) > 3 else None)
            rel = _rel(p2) if p2 else None
        if rel is None:
            return
        kind = ev[3:] if ev.startswith("os.") else ev
    elif ev in _READ:
        p = _resolve(args[_READ[ev]]) if args and args[0] is not None else None
        if p and _rel(p) is not None:
            S.reads += 1
        return
    else:
        return
    S.n += 1
    n = S.n
    S.log.append((n, kind, rel))
    if S.intolerant is not None:
        S.intolerant.append((kind, rel))
    f = S.plan.get(n)
    if f is None:
        return
    v = f["variant"]
    if v == "crash-before":
        S.fired.append((n, kind, v))
        _flush_fired()
        os._exit(CRASH_CODE)
    if v == "error-before":
        S.fired.append((n, kind, v))
        raise OSError(ERRNOS[f.get("errno", "ENOSPC")], "injected fault at event %d" % n)
    if kind == "open-w":
        S.armed_open = (p, f, n)
    else:
        # mid-write variant planned at a non-open event: degrade to crash-before / error-before
        if v in ("crash-after-open", "torn"):
            S.fired.append((n, kind, "crash-before"))
            _flush_fired()
            os._exit(CRASH_CODE)
        S.fired.append((n, kind, "error-before"))
        raise OSError(ERRNOS[f.get("errno", "ENOSPC")], "injected fault at event %d" % n)


def _read_fault(rel):
    """A reported I/O error on opening a file under the store for reading (never a crash: reads create no state)."""
    rp = S.read_plan
    for i, rule in enumerate(rp.get("rules") or []):
        if rule["match"] in rel:
            c = S.read_counts.get(i, 0) + 1
            S.read_counts[i] = c
            if c == rule.get("nth", 1):
                S.read_fired.append((S.reads, rel, "rule%d" % i))
                raise OSError(ERRNOS[rule.get("errno", "EIO")], "injected read fault (%s)" % rule["match"])
    if rp.get("p") and len(S.read_fired) < rp.get("max", 1):
        if rp["rng"].random() < rp["p"]:
            S.read_fired.append((S.reads, rel, "random"))
            raise OSError(ERRNOS[rp.get("errno", "EIO")], "injected read fault at read %d" % S.reads)


_fired_sink = None


def _flush_fired():
    """Before a crash, tell the parent which fault fired (the pipe write is unbuffered)."""
    if _fired_sink is not None:
        try:
            _fired_sink({"fired": list(S.fired), "events": list(S.log)})
        except Exception:
            pass


class _Proxy:
    """Thin unbuffered stand-in for a file opened for writing under a store root."""

    def __init__(self, f, fault, n):
        self._f = f
        self._fault = fault
        self._n = n

    def write(self, data):
        f = self._fault
        if f is None:
            return self._f.write(data)
        v = f["variant"]
        if v in ("error-at-close", "crash-at-close"):
            # the data sits in a buffer (the program's or the kernel's) until the file is closed: the loss shows only then
            self._held = getattr(self, "_held", [])
            self._held.append(data)
            return len(data)
        self._fault = None
        ln = len(data)
        if v in ("torn", "short-error"):
            ck = f.get("cut", "half")
            raw = None
            if ck == "midchar":
                # a write is torn between BYTES: in a text file that can be inside a multi-byte character.  Cut after the lead
                # byte of the first non-ASCII character (no such character: cut in half)
                if isinstance(data, str) and hasattr(self._f, "buffer"):
                    b = data.encode(getattr(self._f, "encoding", None) or "utf-8")
                    i = next((k for k, c in enumerate(b) if c >= 0x80), None)
                    if i is not None:
                        raw = b[:i + 1]
                ck = "half"
            if raw is not None:
                self._f.flush()
                self._f.buffer.write(raw)
                self._f.buffer.flush()
            else:
                cut = {"zero": 0, "one": min(1, ln), "half": ln // 2, "allbut1": max(ln - 1, 0)}[ck]
                self._f.write(data[:cut])
                self._f.flush()
            S.fired.append((self._n, "open-w", v + ":" + f.get("cut", "half")))
            if v == "torn":
                _flush_fired()
                os._exit(CRASH_CODE)
            raise OSError(ERRNOS[f.get("errno", "ENOSPC")], "injected short write at event %d" % self._n)
        if v == "error-first-write":
            S.fired.append((self._n, "open-w", v))
            raise OSError(ERRNOS[f.get("errno", "ENOSPC")], "injected write error at event %d" % self._n)
        return self._f.write(data)

    def writelines(self, lines):
        for ln in lines:
            self.write(ln)

    def _lose_at_close(self):
        """error-at-close / crash-at-close: of what was written only the first half reaches the file; then the close reports
        ENOSPC (or the process dies in it)."""
        f, self._fault = self._fault, None
        held = getattr(self, "_held", [])
        self._held = []
        if f is None or f["variant"] not in ("error-at-close", "crash-at-close"):
            return
        if held:
            data = held[0][:0].join(held)
            self._f.write(data[:len(data) // 2])
        try:
            self._f.flush()
        except Exception:  # noqa
            pass
        S.fired.append((self._n, "open-w", f["variant"]))
        if f["variant"] == "crash-at-close":
            _flush_fired()
            os._exit(CRASH_CODE)
        try:
            self._f.close()
        except Exception:  # noqa
            pass
        raise OSError(ERRNOS[f.get("errno", "ENOSPC")], "injected error at close of the file opened at event %d" % self._n)

    def flush(self):
        if getattr(self, "_held", None):
            self._lose_at_close()
        return self._f.flush()

    def close(self):
        if self._fault is not None and self._fault["variant"] in ("error-at-close", "crash-at-close"):
            self._lose_at_close()
        return self._f.close()

    def __enter__(self):
        return self

    def __exit__(self, *a):
        self.close()

    def __iter__(self):
        return iter(self._f)

    def __getattr__(self, k):
        return getattr(self._f, k)


def _after_open(f):
    arm = S.armed_open
    if arm is None:
        return f
    S.armed_open = None
    p, fault, n = arm
    if fault["variant"] == "crash-after-open":
        S.fired.append((n, "open-w", "crash-after-open"))
        _flush_fired()
        os._exit(CRASH_CODE)
    return _Proxy(f, fault, n)


def _open(file, *a, **k):
    f = _real_open(file, *a, **k)
    if S.active and S.armed_open is not None:
        return _after_open(f)
    return f


def _os_open(path, flags, *a, **k):
    fd = _real_os_open(path, flags, *a, **k)
    # an armed fault stays armed: the io.open(fd) / os.fdopen(fd) that follows picks it up
    return fd


def install():
    """Idempotent; must run before the library opens files (it resolves open at call time)."""
    global _installed
    if _installed:
        return
    _installed = True
    sys.addaudithook(_hook)
    io.open = _open
    builtins.open = _open
    os.open = _os_open


def arm(roots, plan=None, intolerant=False, sink=None):
    global _fired_sink
    S.roots = [os.path.normpath(r) for r in roots]
    S.n = 0
    S.reads = 0
    S.log = []
    S.plan = {int(k): v for k, v in (plan or {}).items()}
    S.fired = []
    S.intolerant = [] if intolerant else None
    S.armed_open = None
    S.read_plan = None
    S.read_counts = {}
    S.read_fired = []
    S.active = True
    _fired_sink = sink


def set_read_plan(rules=None, p=0.0, max_faults=1, seed=0, errno_name="EIO"):
    """Arm (or, with no arguments, clear) read faults; the seam must be armed.  Deterministic: the random variant draws
    from its own generator seeded here, one draw per read-open under the roots."""
    import random
    if not rules and not p:
        S.read_plan = None
        return
    S.read_plan = {"rules": list(rules or []), "p": p, "max": max_faults, "rng": random.Random(seed), "errno": errno_name}
    S.read_counts = {}
    S.read_fired = []


def set_plan(plan, base=None):
    """Replace the fault plan; event indices are relative to the current counter unless base given."""
    off = S.n if base is None else base
    S.plan = {int(k) + off: v for k, v in (plan or {}).items()}


def disarm():
    S.active = False


def snapshot_tree(root):
    """(relative path -> sha256 | 'dir') for everything under root, sorted."""
    import hashlib
    was = S.active
    S.active = False
    try:
        out = {}
        for dp, dn, fn in os.walk(root):
            dn.sort()
            rel = dp[len(root):]
            out[rel + "/"] = "dir"
            for name in sorted(fn):
                with _real_open(os.path.join(dp, name), "rb") as f:
                    out[rel + "/" + name] = hashlib.sha256(f.read()).hexdigest()
        return out
    finally:
        S.active = was
