"""One 'node' of the C03 simulation: a fresh interpreter with its own PYTHONHASHSEED.

usage: python -m sim.evonode <job.json> <out.json>
job: {"root", "seed", "programs": [{"idx", "prog", "orders", "import_order", "query_order", "calls", "run_calls"}]}"""
import importlib
import json
import os
import sys


def main(job_path, out_path):
    from sim import core, progen, world
    job = json.load(open(job_path))
    world.import_memento()
    world.install_seams(job["seed"])
    side = world.SideChannel()
    out = {"hashseed": os.environ.get("PYTHONHASHSEED"), "programs": {}}
    src = os.path.join(job["root"], "src-%s" % job["node"])
    os.makedirs(src, exist_ok=True)
    sys.path.insert(0, src)
    for pj in job["programs"]:
        prog = pj["prog"]
        pkg = "vp%d" % pj["idx"]
        res = {"versions": {}, "calls": []}
        try:
            store = os.path.join(job["root"], "store-%d" % pj["idx"])
            world.make_env(store, world.make_storage("filesystem", store, cache_mb=1 if pj.get("cache") else None))
            progen.write_package(prog, src, pkg=pkg, orders=pj["orders"])
            importlib.invalidate_caches()
            for mi in pj["import_order"]:
                importlib.import_module("%s.%s" % (progen.pkg_of(prog, mi, pkg), prog["modules"][mi]))
            for nid in pj["query_order"]:
                nd = prog["nodes"][nid]
                fn = getattr(sys.modules["%s.%s" % (progen.pkg_of(prog, nd["module"], pkg), prog["modules"][nd["module"]])], nd["name"])
                res["versions"][nd["name"]] = fn.version()
            if pj.get("run_calls"):
                for nid, x in pj["calls"]:
                    nd = prog["nodes"][nid]
                    fn = getattr(sys.modules["%s.%s" % (progen.pkg_of(prog, nd["module"], pkg), prog["modules"][nd["module"]])], nd["name"])
                    side.take()
                    try:
                        r = ["ok", fn(x)]
                    except Exception as e:  # noqa
                        r = ["exc", type(e).__name__, str(e)[:200]]
                    res["calls"].append({"out": r, "runs": [t[0] for t in side.take()]})
        except Exception as e:  # noqa
            import traceback
            res["error"] = traceback.format_exc()[-1500:]
            res["error_lib"] = core.lib_raised(e.__traceback__, type(e))
            res["error_type"] = type(e).__name__
        out["programs"][str(pj["idx"])] = res
    with open(out_path, "w") as f:
        json.dump(out, f, sort_keys=True)


if __name__ == "__main__":
    main(sys.argv[1], sys.argv[2])
