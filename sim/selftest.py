"""./check selftest [--smoke] [--determinism] [--mutants] — self-tests of the machinery (DESIGN.md 2.11)."""
import glob
import importlib
import json
import os
import shutil
import subprocess
import sys
import tempfile

from . import core, world


def smoke():
    m = world.import_memento()
    print("twosigma.memento from", os.path.dirname(m.__file__))

    def body(emit):
        world.install_seams(1)
        root = core.new_scratch("smoke")
        st = world.make_storage("filesystem", root)
        world.make_env(root, st)
        mod = world.load_module("vsmoke", "import twosigma.memento as m\n@m.memento_function\ndef f(x):\n    return x + 1\n")
        emit({"r": [mod.f(1), mod.f(1)]})
    ev, code = core.lifetime(body)
    assert ev == [{"r": [2, 2]}] and code == 0, (ev, code)
    core.cleanup_scratch()
    print("smoke ok")
    return 0


def determinism(props, n):
    """Same cases twice in this interpreter and once in a fresh interpreter with another outer hash seed."""
    bad = 0
    for p in props:
        mod = importlib.import_module("checks." + p.lower())
        cases = mod.cases("quick", int(os.environ.get("VERIF_SEED", "0")))
        step = max(1, len(cases) // n)
        idx = list(range(0, len(cases), step))[:n]
        d1 = [mod.execute(cases[i])["digest"] for i in idx]
        d2 = [mod.execute(cases[i])["digest"] for i in idx]
        env = dict(os.environ, PYTHONHASHSEED="4242", VERIF_DIGEST_IDX=",".join(map(str, idx)))
        out = subprocess.run([os.path.join(core.VERIF, "check"), "selftest", "--digests", p], env=env,
                             capture_output=True, text=True, timeout=3600)
        try:
            d3 = json.loads(out.stdout.strip().splitlines()[-1])
        except Exception:
            print("determinism %s: fresh interpreter failed: %s %s" % (p, out.stdout[-500:], out.stderr[-500:]))
            bad += 1
            continue
        ok = d1 == d2 == d3
        print("determinism %s: %d cases x (2 in-process + 1 fresh interpreter started under another outer PYTHONHASHSEED; the launcher pins it): %s" % (
            p, len(idx), "identical" if ok else "DIVERGED"))
        if not ok:
            bad += 1
            for i, a, b, c in zip(idx, d1, d2, d3):
                if not (a == b == c):
                    print("   case", i, a[:12], b[:12], c[:12])
    core.cleanup_scratch()
    return 1 if bad else 0


def digests(p):
    mod = importlib.import_module("checks." + p.lower())
    cases = mod.cases("quick", int(os.environ.get("VERIF_SEED", "0")))
    idx = [int(x) for x in os.environ["VERIF_DIGEST_IDX"].split(",")]
    print(json.dumps([mod.execute(cases[i])["digest"] for i in idx]))
    core.cleanup_scratch()
    return 0


def mutants(only=None):
    """Each selftest/mutants/<prop>-*.patch must be caught by ./check <prop> --tier quick on a scratch copy."""
    pats = sorted(glob.glob(os.path.join(core.VERIF, "selftest", "mutants", "*.patch")) +
                  glob.glob(os.path.join(core.VERIF, "seeded", "*", "patch.diff")))
    missed = []
    for pf in pats:
        if pf.endswith("patch.diff"):
            meta = json.load(open(os.path.join(os.path.dirname(pf), "meta.json")))
            props = meta.get("caught_by") or [meta["property"]]
            name = os.path.basename(os.path.dirname(pf))
            if meta.get("expected_missed"):
                print("mutant %s: recorded gap - no check catches it (%s)" % (name, meta.get("history", "")[:120]))
                continue
        else:
            name = os.path.basename(pf)[:-6]
            props = [name.split("-")[0].upper()]
        if only and not any(o.lower() in name.lower() or o.upper() in props for o in only):
            continue
        tmp = tempfile.mkdtemp(prefix="verif-mut-", dir="/dev/shm" if os.path.isdir("/dev/shm") else None)
        try:
            dst = os.path.join(tmp, "repo")
            shutil.copytree(core.REPO, dst, ignore=shutil.ignore_patterns(".git", "__pycache__", "*.pyc", "docs", "example"))
            r = subprocess.run(["patch", "-p1", "-s", "-i", pf], cwd=dst, capture_output=True, text=True)
            if r.returncode != 0:
                print("mutant %s: patch does not apply: %s" % (name, (r.stdout + r.stderr)[-300:]))
                missed.append(name)
                continue
            caught = False
            for p in props:
                env = dict(os.environ, VERIF_REPO=dst)
                out = subprocess.run([os.path.join(core.VERIF, "check"), p, "--tier", "quick", "--no-evidence"], env=env,
                                     capture_output=True, text=True, timeout=3600)
                if out.returncode == 1 and "VIOLATION property=%s" % p in out.stdout:
                    caught = True
                    print("mutant %s: caught by %s" % (name, p))
                    break
                if out.returncode == 2:
                    print("mutant %s: %s harness error: %s" % (name, p, out.stdout[-400:]))
            if not caught:
                print("mutant %s: MISSED by %s" % (name, props))
                missed.append(name)
        finally:
            shutil.rmtree(tmp, ignore_errors=True)
    shutil.rmtree(os.path.join(core.VERIF, "replays"), ignore_errors=True) if False else None
    return 1 if missed else 0


def main(argv):
    core.scratch_base()
    if "--smoke" in argv:
        return smoke()
    world.import_memento()
    if "--digests" in argv:
        return digests(argv[argv.index("--digests") + 1])
    if "--mutants" in argv:
        return mutants([a for a in argv if not a.startswith("--")])
    props = [a for a in argv if not a.startswith("--")] or sorted(
        os.path.basename(f)[:-3].upper() for f in glob.glob(os.path.join(core.VERIF, "checks", "c[0-9][0-9].py")))
    n = 12
    for a in argv:
        if a.startswith("--n="):
            n = int(a[4:])
    return determinism(props, n)
