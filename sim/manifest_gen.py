"""Generates MANIFEST.json from the table below (python -m sim.manifest_gen)."""
import json
import os

VERIF = os.path.dirname(os.path.dirname(os.path.abspath(__file__)))

CHECKS = {
    "C08": dict(engine="crash", level="fault_enumeration", design="4/C08, 3.3",
                technique="deterministic simulation: fault injection at every mutating filesystem event (audit-hook seam), real process death, recovery lifetimes",
                text="Every mutating filesystem event of eight memoization scenarios (x cache on/off x shared/separate metadata path) is hit by every applicable fault variant (crash before, crash after open, torn write + crash, errno before, short write + errno, error on first write); afterwards fault-free process lifetimes must return correct values, raise nothing, recompute each call at most once and then be served from the store. Single faults are enumerated completely; the thorough tier adds seeded fault sequences of length 2-3 including crash during recovery.",
                note="Trusts CPython audit events to cover all file mutations, tmpfs semantics, process death = os._exit (no power-loss model)."),
}

NOT_APPLICABLE = {
    "C04": "argument identity is a relation between inputs of one pure function (no schedule, clock, fault, history or interleaving can change it); not a simulation target",
    "C11": "JSON codec round trip is a pair of pure recursive functions over a value domain; state-free and input-quantified; not a simulation target",
    "C18": "declarative configuration is a pure mapping from a configuration object/file to constructed back-ends; no history, fault or schedule dimension",
}

PENDING = {}


def main():
    props = [json.loads(l)["id"] for l in open(os.path.join(VERIF, "properties.jsonl"))]
    checks = []
    for pid in props:
        c = CHECKS.get(pid)
        if not c:
            continue
        checks.append({
            "property_id": pid,
            "quick_cmd": "./check %s --tier quick" % pid,
            "thorough_cmd": "./check %s --tier thorough" % pid,
            "evidence_file": "evidence/%s.json" % pid,
            "replay_cmd_template": "./check %s --replay {path}" % pid,
            "engine": c["engine"],
            "level_claimed": {"category": c["level"], "text": c["text"], "design_ref": "DESIGN.md " + c["design"]},
            "level_note": c["note"],
            "technique": c["technique"],
        })
    na = [{"property_id": p, "reason": r} for p, r in sorted(NOT_APPLICABLE.items())]
    for pid in props:
        if pid not in CHECKS and pid not in NOT_APPLICABLE:
            na.append({"property_id": pid, "reason": PENDING.get(pid, "check not built yet (work in progress; see DESIGN.md section 4)")})
    engines = {}
    for pid, c in CHECKS.items():
        engines.setdefault(c["engine"], []).append(pid)
    man = {
        "version": 1,
        "setup_cmd": "/venv/bin/python -m compileall -q sim checks >/dev/null && ./check selftest --smoke",
        "hooks": {
            "guard": "TWOSIGMA_MEMENTO_VERIF",
            "enable": "no source hooks: every seam is external (sys.addaudithook, io.open wrapper, module-attribute replacement, fork); the checks export TWOSIGMA_MEMENTO_VERIF=1 for form only",
            "baseline_off_cmd": "cd /repo && env -u TWOSIGMA_MEMENTO_VERIF /venv/bin/python -m pytest -ra -q -p no:cacheprovider --timeout=900 --continue-on-collection-errors",
            "source_commits": [],
            "add_only": True,
        },
        "engines": [{"name": n, "path": "sim/ + checks/", "serves_properties": sorted(v),
                     "kind_free_text": "deterministic simulation with fault injection"} for n, v in sorted(engines.items())],
        "checks": checks,
        "not_applicable": na,
        "notes": "See DESIGN.md. Exit codes: 0 held, 1 violation (VIOLATION line), 2 harness error (HARNESS-ERROR line). known_findings.json lists fixed and known findings.",
    }
    with open(os.path.join(VERIF, "MANIFEST.json"), "w") as f:
        json.dump(man, f, indent=1)
        f.write("\n")


if __name__ == "__main__":
    main()
