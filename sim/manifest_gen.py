"""Generates MANIFEST.json from the table below (python -m sim.manifest_gen)."""
import json
import os

VERIF = os.path.dirname(os.path.dirname(os.path.abspath(__file__)))

CHECKS = {
    "C10": dict(engine="calltree", level="exploration", design="4/C10, 3.5",
                technique="deterministic simulation: generated call trees re-run over drawn memoized subsets (forget / restart / evict histories), and concurrent callers under a seeded thread scheduler, with every stored provenance record compared to a reference model",
                text="Generated call DAGs with repeated, batched, mapped, keyword-presented, ignore_result, failing-and-caught and failing-and-propagating sub-calls and file/custom resource handles. The root is run on an empty store, then up to four more times after forgetting the root plus a drawn subset of the calls beneath it (the rest stays memoized, including memoized exceptions), optionally after a restart or cache flush, singly or inside a batch. After every run the stored record of every call that must exist (direct invocations in order with argument hashes, resource handles, transitive function-version set, context, result type) must equal the model's, hence be identical for every memoized subset. In addition 2-3 threads run call scripts over a small DAG under the seeded scheduler of engine sched (sampled schedules plus single-pre-emption sweeps), so that sub-calls are also 'found in the store' between a caller's batch pre-check and its look-up under the per-call mutex; afterwards every stored record is compared with the model. 30% of the filesystem histories re-run the root while stored mementos / results cannot be read (reported I/O errors on 5-40% of the reads): every record that exists must stay exact.",
                note="Sampling of trees and memoized subsets. Invocations are compared by (function, argument hash)."),
    "C15": dict(engine="calltree", level="exploration", design="4/C15, 3.5",
                technique="deterministic simulation: twin worlds from the same pre-state (batch vs. element-wise) compared slot by slot, store by store and execution by execution",
                text="World A evaluates call_batch (raise_first_exception true/false) or map_over_range (range presented as list, tuple, range, generator, iterator or map object) over the root of a generated call tree; world B evaluates the same elements one by one in order. Batches have length 0-8 with duplicates, failing elements, a drawn pre-memoized subset, partial-application prefixes, cache on/off and an optional restart before the batch. Results must agree position by position (exceptions by class and message; the first failing slot is what is raised), each distinct element's body runs at most once and never for a pre-memoized element, and the final stores must be equal as sets of (name, argument hash, result type, value, invocation list). A quarter of the cases with pre-memoized elements inject, identically in both worlds, one reported I/O error on the first read of one element's stored memento; root functions may fail transiently with an exception that is not to be memoized (first execution per process).",
                note="Sampling."),
    "C16": dict(engine="calltree", level="exploration", design="4/C16, 3.5",
                technique="deterministic simulation: repeated runs of generated call trees under sequences of context arguments, checked against an inheritance/identity reference model incl. store probes under every context",
                text="Call trees with context-argument overrides (including the empty dictionary) on inner edges are run repeatedly under drawn sequences of root contexts (A, B, A, none, ...), with sub-calls memoized beforehand under the same or other contexts, singly or in a batch, across restarts. After each run: function bodies saw only their declared parameters; exactly the calls whose effective context is new executed (a repeat under an earlier context executes nothing); every call has a memento under its effective context recording that context, and none under any other context of the universe; a run with further calls prevented executes no nested body and every nested call fails with a runtime error. Trees contain prevented inner edges and nodes that raise exceptions which are not to be memoized (executed every time, never stored, must not leave anything behind for later calls of the thread).",
                note="Sampling. Empty dictionary: no context for identity, 'attached' for inheritance. Prevention is exercised with arguments no other run uses."),
    "C02": dict(engine="calltree", level="exploration", design="4/C02, 3.5",
                technique="deterministic simulation: seeded call/forget/restart/evict/clock-jump histories over scripted functions vs. a call-ledger reference model, on three backends",
                text="Scripted functions return values from the documented result-type domain (54 catalogue kinds and nestings, incl. partitions) or raise (built-in, custom, two-argument constructor, function-local class, not-to-be-memoized). Histories of calls (normal, ignore_result, force_local), repeats, forget, forget_all, memento queries, restarts (fresh process over the same store), cache evictions and clock jumps run on filesystem, filesystem+cache (4 KiB - 4 MiB) and memory backends. The ledger demands: the body runs exactly once per distinct call and never again until forgotten; every later call returns an equal value of the same type (also after restart / eviction); the first call's value is usable; exceptions are replayed as the same class when rebuildable from a message, else as the memoized-exception type, with the original message; not-to-be-memoized exceptions are raised and executed every time and never recorded; the recorded result type matches. Histories include a batch naming one call twice and an exception class living in a module that only a running body imports. A second workload (600 histories in the quick tier) runs a three-level call tree whose leaf failures are a switch the history flips between calls (transient failures), forgets through Memento.forget_exceptions_recursively (also as dry run) and plain forget, walks the records with Memento.trace / graph, and compares every call's outcome and executed set with a dictionary model.",
                note="Sampling. Function bodies are scripted through the builtins side channel. Memoized exception under ignore_result is not asserted (docstring and code disagree)."),
    "C17": dict(engine="calltree", level="exploration", design="4/C17, 3.5",
                technique="deterministic simulation: seeded call/restart/cache-flush histories over partition merge chains vs. an overlay reference model",
                text="Chains p0..pk (k<=4) return in-memory or on-disk partitions with overlapping string keys and supported values (incl. nested partitions); each level may declare the result of the level below as merge parent. Histories of calls at arbitrary levels, restarts and cache flushes force the parent to be just computed, read back from the memory cache, or read back from disk. Every returned partition must list exactly the overlay key set, list its own keys, return for each key the expected value, load single keys from a freshly obtained object, and be stored (memento present; no body runs for a stored call, also after restart). In-memory partitions are built from dict, defaultdict, OrderedDict and ChainMap; pass-through functions hand on, unchanged, the partition another function returned.",
                note="Sampling. The merge parent is obtained by calling the parent function in the child's body (the documented usage)."),
    "C03": dict(engine="evo", level="exploration", design="4/C03, 3.1",
                technique="deterministic simulation: several fresh interpreters ('nodes') per generated program with seeded PYTHONHASHSEED, definition/import/first-query order permutations, sharing one store",
                text="For batches of generated programs 3 (quick) or 4 (thorough) fresh interpreters are started, each with its own PYTHONHASHSEED drawn from the PRNG, its own permutation of definition order inside every module, of module import order and of the order in which version() is first asked. The function -> version map must be identical on all nodes; node 1 runs a call workload against an empty store and node 2 the same workload against the same store, where the side channel must record zero body executions and all values must equal node 1's. Programs also contain mutual recursion, lambda helpers, same-named variables in two modules, set-valued defaults, declared dependencies.",
                note="Hash seeds and orders are sampled. A case is a batch of 30-40 programs; evaluations counts program x node runs."),
    "C12": dict(engine="evo", level="exploration", design="4/C12, 3.1",
                technique="deterministic simulation: two-lifetime histories (store, restart, evolve the code base, read back) over generated names and evolutions",
                text="(a) For generated cluster/module/function/explicit-version strings (versions over letters, digits and . _ - + = : # @ incl. adversarial shapes) the qualified name must split back into exactly its parts, and the entry stored under it must be found by calls (no re-execution), memento(), list_mementos() and list_memoized_functions(), in the same lifetime and after a restart. (b) A caller with a pinned version stores caller(x) that used a callee (directly or through an intermediate function); before the second lifetime the callee is edited, removed, renamed, made plain, re-clustered or has a tracked global changed; in default and named clusters, with and without cache: no operation may raise, caller(x) is served without executing, and references to callee versions that no longer exist are flagged external while live ones are not. Version strings also imitate the store's own file suffixes (.link, .memento.json, .versions ...); callee versions in the evolutions contain '::', ':', '#'.",
                note="Sampling. Cluster names are drawn without ':' and '#' (the naming scheme is ambiguous otherwise). For a re-clustered callee only 'never raises / is served' is asserted."),
    "C01": dict(engine="evo", level="exploration", design="4/C01, 3.1",
                technique="deterministic simulation: seeded program-edit histories over process lifetimes sharing one store, compared call by call with an un-memoized sibling lifetime running the same source texts",
                text="Generated packages of memento and plain functions (constants, nested code, set/tuple constants, f-strings, positional and keyword-only defaults, tracked globals, bare/attribute/alias/hidden call edges, recursion, explicit versions, salts) are edited 1-8 times; each edit is delivered cross-process (files rewritten, fresh forked lifetime importing them, same persistent store) or in-process (re-execution of one def or of the whole module as a notebook cell, attribute rebinding, in-place mutation). After every edit auto-versioned functions are called plainly and through call/ignore_result/force_local/partial/with_context_args; each outcome must equal the outcome of a reference lifetime in which memento_function is a pass-through decorator, or be UndeclaredDependencyError. A mismatch is classified by the stale ingredient. Programs also contain mutual recursion, lambda helpers, two variables of one name in two modules, set-valued defaults, declared dependencies; two hand-written histories re-split explicit version strings (known finding).",
                note="Sampling over programs and histories. fork()ed lifetimes share one hash seed. The generator encodes user discipline (explicit-version bump, alias re-binding)."),
    "C13": dict(engine="evo", level="exploration", design="4/C13, 3.1",
                technique="deterministic simulation: seeded in-process event histories with interleaved version queries, refinement-checked against fresh lifetimes replaying the identical cells without queries",
                text="A long lifetime executes a generated program as notebook cells in random order, then 2-8 redefinition / rebinding / mutation / swap events, with version queries through version(), fn_reference(), fresh modifier clones, fresh unregistered wrappers and previously held clones interleaved at every position on varying subsets (warm and cold cache entries). At every query point two fresh lifetimes (all cells; only live cells with mutations folded) replay the same cell texts without any earlier query and ask once: every query must succeed and equal the fresh answer, and the two fresh answers must agree. Names are also bound for a while to a callable of another package (no hash rule) and then to the same memento function again; callers may declare dependencies=[...].",
                note="Sampling. Clusters are never locked. Both sides execute byte-identical source units."),
    "C14": dict(engine="evo", level="exploration", design="4/C14, 3.1",
                technique="deterministic simulation: invariant evaluated at every state of the program-evolution simulator (dependency sets and graph vs. the generator's reference graph; enforcement vs. the model's expected outcome)",
                text="At every state reached by the C01 histories (freshly imported programs, after cross-process and in-process edits) the transitive and direct memento dependencies and the df() edges reported for every memento function are compared with the reference graph the generator knows (reachability through memento and same-package plain nodes, cycles, aliases, module attributes, explicit versions); every call of an auto-versioned function, plain or through a modifier clone, must raise UndeclaredDependencyError iff executing it un-memoized reaches a hidden dynamic call to a memento function outside the closure of the nearest auto-versioned memento frame. A third of the histories apply in-process edits WITHOUT the explicit-version bump and compare only the dependency reports, asked for drawn subsets of the functions in drawn orders.",
                note="Sampling; reference graph and expected outcome come from ~80 lines of model code in sim/progen.py."),
    "C09": dict(engine="sched", level="exploration", design="4/C09, 2.5",
                technique="deterministic simulation: seeded scheduler over real threads (baton passing, settrace pre-emption points, cooperative lock wrapper); random, PCT and single-pre-emption-sweep schedules",
                text="2-3 real threads run call scripts (single calls, call_batch, calls under context arguments, ignore_result; equal and different keys; a nested DAG with functions that raise, catch a callee's exception or return partitions, some defined before their callees; optionally a stale version cache) on cold store / warm store + cold cache / warm cache over filesystem, filesystem + 5 KiB cache and memory backends. A seeded scheduler decides at every call event in twosigma.memento and every line of the runner, call-stack and storage modules which thread runs next (random pre-emption, PCT d<=3, and systematic single-pre-emption sweeps). Each schedule must give every caller the sequential value, let no exception escape, give every caller of a raising function that function's own exception, run each not-yet-memoized distinct call's body exactly once per (function, argument, context) (zero when warm), leave usage counter = sum of resident sizes <= budget, queue = key set without duplicates, correct resident values, and finish without deadlock within the step cap; afterwards a fresh process over the same store repeats every call and must get the correct value without executing anything (also for calls that wrote one shared override key). Dedicated scenarios: a call fanning out over 1300 distinct calls while a second caller arrives (pre-emption hints placed by the workload), two writers of one override key, a batch pre-check racing an in-flight memoization.",
                note="Sampling of schedules (systematic only for one pre-emption on five base scenarios). Line-level, not bytecode-level, pre-emption. User function bodies are atomic."),
    "C05": dict(engine="store", level="exploration", design="4/C05, 3.2",
                technique="deterministic simulation: seeded operation histories on three backends in lock-step vs. a dictionary reference model, restarts as operations",
                text="Seeded operation histories over a small function/argument/value alphabet (prefix names, versions 1 vs 10, size classes relative to the drawn cache budget, key overrides, metadata, restarts) are executed in lock-step on the filesystem, filesystem+cache and memory backends; every answer is compared with a plain dictionary model, listings are compared after every operation and a full sweep (nothing forgotten reappears, every live entry reads its last value) runs at every restart and at the end. Every fourth history is a fault-injecting one: some forget_call operations meet a reported I/O error at one of their file operations and are repeated; after the successful repeat nothing of the call may answer any more (memento, custom metadata, is_memoized).",
                note="Sampling, not enumeration. Storage methods are driven directly with harness-built mementos. Metadata stored with a replaced/shared content object is treated as unspecified."),
    "C06": dict(engine="store", level="exploration", design="4/C06, 3.2",
                technique="deterministic simulation: seeded cache-use histories checked against LRU laws, with the filesystem seam deciding whether a read touched the store",
                text="Cache-use histories over budgets from 2 KiB to 64 MiB and value sizes tiny/third/half/exact/oversize are checked after every operation against laws: usage <= budget, oversize never resident, usage counter = sum of resident entry sizes = recomputed estimates, zero after everything is forgotten, latest fitting write resident, a more recently used fitting entry is never evicted before a less recently used resident one, and a read of a resident value causes zero file opens under the store root (audit-hook seam).",
                note="Laws, not a bit-exact replica; recency of bare lookups is left open. Sizes are the library's own estimate."),
    "C07": dict(engine="store", level="exploration", design="4/C07, 3.2",
                technique="deterministic simulation: seeded write/overwrite/forget histories with a whole-store integrity scan and ledger re-read after every step",
                text="Histories biased to writes (shared override keys incl. k and k/sub, null results deleting the override link, equal bytes from different functions, forgets of other calls, restarts). After every step the tree under c/ is scanned (each object hashes to its name, links resolve, one object per hash) and every live memento is re-read through a cache-less backend and compared with the value recorded when it was created; content keys must equal c/<sha256 of the stored bytes> and equal bytes must share one (key, version).",
                note="Sampling. Ledger values are compared by type-aware deep equality after a pickle round trip."),
    "C19": dict(engine="store", level="exploration", design="4/C19, 3.2",
                technique="deterministic simulation: operation and call histories under a mutation-intolerant filesystem seam (any audit-hook mutation event under the store roots is the violation)",
                text="A store populated through a writable backend is reopened read-only (flag from argument or configuration dictionary, with and without cache, shared/separate metadata path) and driven by storage-level histories plus function-level calls, forget, forget_all, put_metadata and forget_cluster; any mutating filesystem event under the store roots, or any difference in the (path -> sha256) snapshot, is a violation; reads must answer per the dictionary model, memoize must be silent, forget/metadata writes must be rejected, un-memoized functions must execute on every call. Null storage and null runner clusters are driven by call histories: nothing is ever reported memoized / no body ever runs. The read-only flag is passed as constructor argument, in the configuration, as constructor override over a configuration that says writable, or toggled after construction, and the backend is optionally rebuilt from its to_dict() form; the null-runner mode covers context / partial / nested calls and stores whose result objects or links were lost.",
                note="Sampling. Trusts CPython audit events to cover all file mutations."),
    "C08": dict(engine="crash", level="fault_enumeration", design="4/C08, 3.3",
                technique="deterministic simulation: fault injection at every mutating filesystem event (audit-hook seam), real process death, recovery lifetimes",
                text="Every mutating filesystem event of sixteen memoization scenarios - first write, deduplicated blob, partition, exception, null, key override, re-memoization after forget, nested memoizations inside one call, call_batch (cold and partly memoized), DataFrame / ndarray / nested-dict results, partition merged onto a parent - (x cache on/off x shared/separate metadata path) is hit by every applicable fault variant (crash before, crash after open, torn write + crash, errno before, short write + errno, error on first write); afterwards fault-free process lifetimes must return correct values, raise nothing, recompute each call at most once and then be served from the store. Single faults are enumerated completely; the thorough tier adds seeded fault sequences of length 2-3 including crash during recovery. In the deduplication scenarios (equal bytes from another function, same bytes under the same override key) the other function is also asked first after the fault.",
                note="Trusts CPython audit events to cover all file mutations, tmpfs semantics, process death = os._exit (no power-loss model)."),
}

NOT_APPLICABLE = {
    "C04": "argument identity is a relation between inputs of one pure function (no schedule, clock, fault, history or interleaving can change it); not a simulation target",
    "C11": "JSON codec round trip is a pair of pure recursive functions over a value domain; state-free and input-quantified; not a simulation target",
    "C18": "declarative configuration is a pure mapping from a configuration object/file to constructed back-ends; no history, fault or schedule dimension",
}

PENDING = {}

# later extensions of the workloads (DESIGN.md 9.7), appended to the texts above
MORE = {
    "C03": " Programs also contain constant container globals the codec cannot encode next to tracked ones, dependencies declared as function objects, factory-made twin helpers.",
    "C05": " Results are also read with the memento the caller itself handed to memoize (no look-up in between), and values the caller keeps alive are re-memoized in another size class.",
    "C09": " Worker threads also run under copies of the main thread's contextvars context (the way asyncio.to_thread starts them), and two functions obtain external resource handles.",
    "C10": " Concurrent cases also obtain resource handles in two threads and run threads under copied contextvars contexts; 30 % of the histories inject reported read errors, and the stored records are judged also after a round that failed with the injected error (a storage failure must not become a call's recorded outcome).",
    "C12": " Evolutions 'tracked global changed' and 'removed' are also delivered inside the running process (module variable re-bound, function deleted - no decorator runs) after the entry was queried once there, without memory cache.",
    "C13": " Declared dependencies are given as strings or as function objects; programs contain unencodable container globals and factory-made helpers.",
    "C15": " Roots may have a defaulted third parameter: further partials are derived from the keyword prefix before the batch (a parameter sweep) and the element-wise world may call the root directly with all arguments instead of through the prefix.",
    "C17": " Some levels fill the partition's dictionary step by step while consulting the partition's own key listing.",
    "C19": " The read-only flag also arrives through a repository configuration file with a template parameter that is loaded twice in the process with different values, and through to_dict round trips.",
}
MORE2 = {
    "C01": " Names that begin other names (f1 / f10), set constants of tuples; 'mishap' steps: operations that fail halfway (a not-to-be-memoized failure, an unencodable result, an unhashable argument, a declared dependency momentarily unbound) after which every later step is judged as before.",
    "C14": " The C01 mishap steps apply here too; hand-written histories cover 'a legal nested call reaches the callee first'.",
    "C13": " Events also include re-binding a tracked variable to an unencodable value and definitions that fail (a declared dependency unbound), followed by an ordinary version-changing event.",
    "C05": " After a forget that failed with an injected I/O error the backend with the memory cache must answer like a cache-less backend over the same directories; override keys may contain '#'.",
    "C06": " Scripted histories check recency across forget_function; allocation failures (MemoryError in the defensive DataFrame copy) are injected into cache insertions.",
    "C07": " Partitions whose last value cannot be encoded are written (the failing write must not affect anything stored before); override keys may contain '#'.",
    "C08": " Further fault kinds: data lost when the file is closed (error-at-close, crash-at-close), links torn between the bytes of a non-ASCII character (store under a directory with a non-ASCII name), and a fault that lasts several calls (every mutation refused while the first N calls run), after which the same process must memoize again.",
    "C09": " A function that raises a not-to-be-memoized exception runs once per call and every caller gets the exception (a lock left behind shows as deadlock); every recorded cache entry size is compared with the library's own estimate.",
    "C10": " Trees contain not-to-be-memoized failures (never stored, executed again whenever reached); after every run an unrelated probe call must be unaffected by whatever the run left behind.",
    "C12": " The callee may be handed over as an argument value; in-process evolutions include a variable read through its module and a look-up while it is unbound.",
    "C15": " After the evaluation an unrelated probe batch must be unaffected in both worlds.",
    "C16": " Trees contain functions without parameters.",
    "C19": " Read errors are injected into calls through the read-only store (such a call computes again, every later call is served); one read-only configuration dictionary is also used twice.",
}
for _k, _v in MORE.items():
    CHECKS[_k]["text"] += _v
for _k, _v in MORE2.items():
    CHECKS[_k]["text"] += _v


def main():
    props = [json.loads(l)["id"] for l in open(os.path.join(VERIF, "properties.jsonl"))]
    checks = []
    for pid in props:
        c = CHECKS.get(pid)
        if not c:
            continue
        checks.append({
            "property_id": pid,
            "quick_cmd": "./check %s --tier quick" % pid,
            "thorough_cmd": "./check %s --tier thorough" % pid,
            "evidence_file": "evidence/%s.json" % pid,
            "replay_cmd_template": "./check %s --replay {path}" % pid,
            "engine": c["engine"],
            "level_claimed": {"category": c["level"], "text": c["text"], "design_ref": "DESIGN.md " + c["design"]},
            "level_note": c["note"],
            "technique": c["technique"],
        })
    na = [{"property_id": p, "reason": r} for p, r in sorted(NOT_APPLICABLE.items())]
    for pid in props:
        if pid not in CHECKS and pid not in NOT_APPLICABLE:
            na.append({"property_id": pid, "reason": PENDING.get(pid, "check not built yet (work in progress; see DESIGN.md section 4)")})
    engines = {}
    for pid, c in CHECKS.items():
        engines.setdefault(c["engine"], []).append(pid)
    man = {
        "version": 1,
        "setup_cmd": "/venv/bin/python -m compileall -q sim checks >/dev/null && ./check selftest --smoke",
        "hooks": {
            "guard": "TWOSIGMA_MEMENTO_VERIF",
            "enable": "no source hooks: every seam is external (sys.addaudithook, io.open wrapper, module-attribute replacement, fork); the checks export TWOSIGMA_MEMENTO_VERIF=1 for form only",
            "baseline_off_cmd": "cd /repo && env -u TWOSIGMA_MEMENTO_VERIF /venv/bin/python -m pytest -ra -q -p no:cacheprovider --timeout=900 --continue-on-collection-errors",
            "source_commits": [],
            "add_only": True,
        },
        "engines": [{"name": n, "path": "sim/ + checks/", "serves_properties": sorted(v),
                     "kind_free_text": "deterministic simulation with fault injection"} for n, v in sorted(engines.items())],
        "checks": checks,
        "not_applicable": na,
        "notes": "See DESIGN.md. Exit codes: 0 held, 1 violation (VIOLATION line), 2 harness error (HARNESS-ERROR line). known_findings.json lists fixed and known findings.",
    }
    with open(os.path.join(VERIF, "MANIFEST.json"), "w") as f:
        json.dump(man, f, indent=1)
        f.write("\n")


if __name__ == "__main__":
    main()
