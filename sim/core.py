"""Core of the deterministic simulator: PRNG streams, process lifetimes, batch driver,
violations / known findings, shrinking, evidence, CLI.  See DESIGN.md section 2."""
import faulthandler
import hashlib
import json
import os
import random
import select
import shutil
import signal
import sys
import tempfile
import time
import traceback

VERIF = os.path.dirname(os.path.dirname(os.path.abspath(__file__)))
REPO = os.environ.get("VERIF_REPO", "/repo")
GUARD = "TWOSIGMA_MEMENTO_VERIF"

EXIT_OK, EXIT_VIOLATION, EXIT_HARNESS = 0, 1, 2


class HarnessError(Exception):
    """Something went wrong in the machinery itself (never reported as a violation)."""


class LibraryRaised(HarnessError):
    """An exception that the harness did not anticipate came out of library code (the innermost frame that belongs
    to the library, the harness or the generated program is a library frame).  The generators only produce supported
    programs and operations, and on the unchanged tree this never happens; every claimed property says what the
    library returns, so an unexpected raise is reported as a violation (clause library-raised), not as a harness error."""

    def __init__(self, exc_type, text):
        HarnessError.__init__(self, "library raised %s: %s" % (exc_type, text))
        self.exc_type = exc_type
        self.text = text


def lib_raised(tb, exc_type=None):
    """True if the innermost library / harness / generated-program frame of the traceback is a library frame."""
    lib = os.path.join(os.path.abspath(REPO), "twosigma") + os.sep
    kinds = []
    while tb is not None:
        fn = tb.tb_frame.f_code.co_filename
        if fn.startswith(lib):
            kinds.append("lib")
        elif fn.startswith(VERIF + os.sep):
            kinds.append("harness")
        elif fn.startswith("<") or (_SCRATCH_BASE and fn.startswith(_SCRATCH_BASE)) or "/verif-" in fn:
            kinds.append("program")
        tb = tb.tb_next
    if exc_type is not None and issubclass(exc_type, RecursionError) and len(kinds) > 100:
        # where the interpreter's limit happened to be hit says nothing (it may be inside a seam the library called into):
        # what matters is who was recursing
        return set(kinds[-100:-10]) == {"lib"}
    return bool(kinds) and kinds[-1] == "lib"


def library_violation(e):
    return {"violations": [violation("library-raised", {"exc": e.exc_type}, {"traceback": e.text[-1500:]})],
            "digest": digest_of(["library-raised", e.exc_type]), "nontrivial": True, "stats": {"library_raised": 1}}


def safe_execute(mod, case):
    """mod.execute(case), with an unanticipated exception from library code turned into a violation."""
    try:
        return mod.execute(case)
    except LibraryRaised as e:
        return library_violation(e)


# ----------------------------------------------------------------------------- PRNG

def splitmix64(x):
    x = (x + 0x9E3779B97F4A7C15) & 0xFFFFFFFFFFFFFFFF
    z = x
    z = ((z ^ (z >> 30)) * 0xBF58476D1CE4E5B9) & 0xFFFFFFFFFFFFFFFF
    z = ((z ^ (z >> 27)) * 0x94D049BB133111EB) & 0xFFFFFFFFFFFFFFFF
    return z ^ (z >> 31)


def run_seed(verif_seed, prop, index):
    h = hashlib.sha256(("%d|%s|%d" % (verif_seed, prop, index)).encode()).digest()
    return splitmix64(int.from_bytes(h[:8], "big"))


def stream(seed, name):
    """Independent sub-stream: adding a draw in one component never shifts another."""
    h = hashlib.sha256(("%d/%s" % (seed, name)).encode()).digest()
    return random.Random(int.from_bytes(h[:16], "big"))


def digest_of(obj):
    return hashlib.sha256(json.dumps(obj, sort_keys=True, default=repr).encode()).hexdigest()


# ----------------------------------------------------------------------------- scratch

_SCRATCH_BASE = None
_SCRATCH_OWNER = None


def scratch_base():
    global _SCRATCH_BASE, _SCRATCH_OWNER
    if _SCRATCH_BASE is None:
        inherited = os.environ.get("VERIF_SCRATCH_BASE")
        if inherited and os.path.isdir(inherited):
            # created by an ancestor process (the driver): pool workers, forked lifetimes and fresh interpreters all
            # work beneath it, and the driver removes it at the end
            _SCRATCH_BASE = inherited
        else:
            parent = "/dev/shm" if os.path.isdir("/dev/shm") and os.access("/dev/shm", os.W_OK) else None
            _SCRATCH_BASE = tempfile.mkdtemp(prefix="verif-", dir=parent)
            _SCRATCH_OWNER = os.getpid()
            os.environ["VERIF_SCRATCH_BASE"] = _SCRATCH_BASE
        # temporary directories the library itself creates (staging directories of on-disk partitions) live there too
        tempfile.tempdir = _SCRATCH_BASE
        os.environ["TMPDIR"] = _SCRATCH_BASE
    return _SCRATCH_BASE


_RECENT = []


def new_scratch(tag="r"):
    d = tempfile.mkdtemp(prefix=tag + "-", dir=scratch_base())
    _RECENT.append(d)
    del _RECENT[:-16]
    return d


def cleanup_scratch():
    global _SCRATCH_BASE, _SCRATCH_OWNER
    if _SCRATCH_BASE is not None and _SCRATCH_OWNER == os.getpid():
        shutil.rmtree(_SCRATCH_BASE, ignore_errors=True)
        _SCRATCH_BASE = None
        _SCRATCH_OWNER = None
        tempfile.tempdir = None
        os.environ.pop("TMPDIR", None)
        os.environ.pop("VERIF_SCRATCH_BASE", None)


# ----------------------------------------------------------------------------- lifetimes

LIFETIME_TIMEOUT = float(os.environ.get("VERIF_LIFETIME_TIMEOUT", "60"))
CRASH_CODE = 137


def lifetime(fn, timeout=None):
    """Run fn(emit) in a fork() of the current (pristine) process.

    The child streams JSON lines through a pipe and ends with os._exit(0).  A crash is
    os._exit(CRASH_CODE) from anywhere inside fn (no finally blocks, no flushing).
    Returns (events, exit_code).  A watchdog kill raises HarnessError.
    """
    timeout = timeout or LIFETIME_TIMEOUT
    r, w = os.pipe()
    sys.stdout.flush()
    sys.stderr.flush()
    pid = os.fork()
    if pid == 0:
        code = 0
        try:
            os.close(r)
            faulthandler.dump_traceback_later(timeout * 0.9, exit=True)
            # the cyclic garbage collector runs when allocation counters say so - a clock the simulator does not own.
            # Whether an object caught in a reference cycle (an exception with its traceback) is still alive decides
            # what the library's weak-reference table serves, so inside a lifetime cycles are simply never collected.
            import gc
            gc.disable()

            def emit(obj):
                os.write(w, (json.dumps(obj, sort_keys=True, default=repr) + "\n").encode())

            try:
                fn(emit)
            except BaseException as e:  # failure inside the child that the check did not anticipate
                emit({"HARNESS": traceback.format_exc()[-3000:], "lib": lib_raised(e.__traceback__, type(e)), "exc": type(e).__name__})
                code = 3
        finally:
            os._exit(code)
    os.close(w)
    chunks = []
    deadline = time.monotonic() + timeout
    try:
        while True:
            left = deadline - time.monotonic()
            if left <= 0:
                os.kill(pid, signal.SIGKILL)
                os.waitpid(pid, 0)
                raise HarnessError("lifetime watchdog: child %d killed after %.0fs" % (pid, timeout))
            rl, _, _ = select.select([r], [], [], min(left, 5.0))
            if rl:
                b = os.read(r, 1 << 16)
                if not b:
                    break
                chunks.append(b)
    finally:
        os.close(r)
    _, st = os.waitpid(pid, 0)
    code = os.waitstatus_to_exitcode(st)
    events = []
    raw = b"".join(chunks)
    for d in reversed(_RECENT):      # scratch paths are random: keep them out of event logs and digests
        raw = raw.replace(d.encode(), b"<root>")
    if _SCRATCH_BASE:                # ... including scratch directories made inside the child
        import re
        raw = re.sub(re.escape(_SCRATCH_BASE.encode()) + rb"/[A-Za-z0-9]+-[A-Za-z0-9_]{8}", b"<root>", raw)
    for line in raw.decode().splitlines():
        try:
            events.append(json.loads(line))
        except ValueError:
            pass  # a line cut by a crash
    for e in events:
        if isinstance(e, dict) and "HARNESS" in e:
            if e.get("lib"):
                raise LibraryRaised(e.get("exc", "?"), e["HARNESS"])
            raise HarnessError("child failed: " + e["HARNESS"])
    if code not in (0, CRASH_CODE):
        raise HarnessError("child exit code %r, events=%r" % (code, events[-3:]))
    return events, code


# ----------------------------------------------------------------------------- violations

def violation(clause, features, detail):
    """features: dict of the trace features that characterise the failure (the signature)."""
    return {"clause": clause, "features": features, "detail": detail}


def signature(prop, v):
    feats = ",".join("%s=%s" % (k, v["features"][k]) for k in sorted(v["features"]))
    return "%s %s {%s}" % (prop, v["clause"], feats)


class Findings:
    def __init__(self):
        path = os.path.join(VERIF, "known_findings.json")
        self.entries = json.load(open(path)) if os.path.exists(path) else []

    def known(self, prop):
        return {e["signature"]: e for e in self.entries if e["property"] == prop and e["status"] == "known"}

    def fixed(self, prop):
        return [e for e in self.entries if e["property"] == prop and e["status"].startswith("fixed")]


# ----------------------------------------------------------------------------- shrinking

def ddmin_list(items, test, budget_s=30.0, min_len=0):
    """Greedy delta-debugging over a list: test(candidate) -> True if it still fails the same way."""
    t0 = time.monotonic()
    items = list(items)
    n = 2
    while len(items) > max(min_len, 1) and time.monotonic() - t0 < budget_s:
        chunk = max(1, len(items) // n)
        reduced = False
        for start in range(0, len(items), chunk):
            cand = items[:start] + items[start + chunk:]
            if len(cand) < min_len:
                continue
            if test(cand):
                items = cand
                n = max(n - 1, 2)
                reduced = True
                break
            if time.monotonic() - t0 > budget_s:
                break
        if not reduced:
            if chunk == 1:
                break
            n = min(len(items), n * 2)
    return items


# ----------------------------------------------------------------------------- batch driver

def _worker_run(args):
    modname, case, = args
    import importlib
    mod = importlib.import_module(modname)
    t0 = time.monotonic()
    try:
        res = safe_execute(mod, case)
        res["wall"] = time.monotonic() - t0
        return {"ok": True, "res": res}
    except HarnessError as e:
        return {"ok": False, "err": str(e)}
    except Exception:
        return {"ok": False, "err": traceback.format_exc()[-3000:]}


def _pool(jobs):
    import concurrent.futures as cf
    import multiprocessing as mp
    return cf.ProcessPoolExecutor(max_workers=jobs, mp_context=mp.get_context("fork"))


def run_cases(mod, cases, jobs, budget_s, on_result):
    """Run execute(case) for all cases over a fork pool, in submission order of completion
    index; stops submitting when the wall budget is exceeded."""
    t0 = time.monotonic()
    modname = mod.__name__
    done = 0
    if jobs <= 1:
        for i, c in enumerate(cases):
            if time.monotonic() - t0 > budget_s:
                break
            on_result(i, c, _worker_run((modname, c)))
            done += 1
        return done
    import concurrent.futures as cf
    with _pool(jobs) as ex:
        pending = {}
        it = iter(enumerate(cases))
        exhausted = False
        while True:
            while not exhausted and len(pending) < jobs * 3 and time.monotonic() - t0 <= budget_s:
                try:
                    i, c = next(it)
                except StopIteration:
                    exhausted = True
                    break
                pending[ex.submit(_worker_run, (modname, c))] = (i, c)
            if not pending:
                break
            fin, _ = cf.wait(list(pending), timeout=LIFETIME_TIMEOUT * 4, return_when=cf.FIRST_COMPLETED)
            if not fin:
                for f in pending:
                    f.cancel()
                for p in list(getattr(ex, "_processes", {}).values()):
                    try:
                        p.kill()
                    except Exception:
                        pass
                raise HarnessError("worker pool stalled")
            for f in fin:
                i, c = pending.pop(f)
                try:
                    r = f.result()
                except Exception as e:  # broken pool
                    raise HarnessError("worker died: %r" % (e,))
                on_result(i, c, r)
                done += 1
            if time.monotonic() - t0 > budget_s:
                exhausted = True
    return done


def default_shrink(mod, case, sig, budget_s):
    """Shrink case['ops'] (if present) with ddmin while the same signature persists."""
    prop = mod.PROP

    def same(cand_case):
        try:
            res = safe_execute(mod, cand_case)
        except Exception:
            return False
        return any(signature(prop, v) == sig for v in res["violations"])

    if hasattr(mod, "shrink"):
        return mod.shrink(case, same, budget_s)
    if isinstance(case.get("ops"), list):
        def test(ops):
            c = dict(case)
            c["ops"] = ops
            return same(c)
        ops = ddmin_list(case["ops"], test, budget_s=budget_s, min_len=1)
        c = dict(case)
        c["ops"] = ops
        return c
    return case


def write_evidence(prop, ev):
    os.makedirs(os.path.join(VERIF, "evidence"), exist_ok=True)
    path = os.path.join(VERIF, "evidence", prop + ".json")
    tmp = path + ".tmp"
    with open(tmp, "w") as f:
        json.dump(ev, f, indent=1, sort_keys=True, default=repr)
        f.write("\n")
    os.replace(tmp, path)


def replay_file(mod, path):
    data = json.load(open(path))
    res = safe_execute(mod, data["case"])
    sigs = [signature(mod.PROP, v) for v in res["violations"]]
    return data, res, sigs


def main_check(mod, argv):
    import argparse
    ap = argparse.ArgumentParser()
    ap.add_argument("--tier", default=os.environ.get("VERIF_TIER", "quick"), choices=["quick", "thorough"])
    ap.add_argument("--replay")
    ap.add_argument("--rewrite", action="store_true", help="with --replay: store the observed signature/digest in the file")
    ap.add_argument("--jobs", type=int, default=int(os.environ.get("VERIF_JOBS", str(os.cpu_count() or 4))))
    ap.add_argument("--n", type=int, default=None, help="override number of cases")
    ap.add_argument("--no-evidence", action="store_true")
    a = ap.parse_args(argv)
    prop = mod.PROP
    seed = int(os.environ.get("VERIF_SEED", "0"))
    print("VERIF_SEED=%d property=%s tier=%s repo=%s hashseed=%s" % (
        seed, prop, a.tier, REPO, os.environ.get("PYTHONHASHSEED")), flush=True)
    scratch_base()      # before any worker or lifetime is forked: they all inherit it
    try:
        if a.replay:
            return _main_replay(mod, a.replay, a.rewrite)
        return _main_run(mod, a, seed)
    except HarnessError as e:
        print("HARNESS-ERROR property=%s %s" % (prop, str(e)[-2000:]), flush=True)
        return EXIT_HARNESS
    finally:
        cleanup_scratch()


def _main_replay(mod, path, rewrite=False):
    data, res, sigs = replay_file(mod, path)
    if rewrite and res["violations"]:
        data["signature"] = sigs[0]
        data["violation"] = res["violations"][0]
        data["digest"] = res.get("digest")
        data["recorded_against"] = REPO
        with open(path, "w") as f:
            json.dump(data, f, indent=1, sort_keys=True, default=repr)
    want = data.get("signature")
    print("replay: expected signature: %s" % want)
    print("replay: observed signatures: %s" % sigs)
    print("replay: digest %s (recorded %s)" % (res.get("digest"), data.get("digest")))
    for v in res["violations"]:
        print("  violation:", json.dumps(v, default=repr)[:1500])
    if want in sigs:
        same = data.get("digest") in (None, res.get("digest"))
        print("REPRODUCED property=%s digest_match=%s" % (mod.PROP, same))
        return EXIT_VIOLATION
    print("NOT-REPRODUCED property=%s" % mod.PROP)
    return EXIT_OK if not sigs else EXIT_VIOLATION


def _main_run(mod, a, seed):
    prop = mod.PROP
    t0 = time.monotonic()
    budget = float(os.environ.get("VERIF_BUDGET_S", str(mod.BUDGET[a.tier])))
    findings = Findings()
    known = findings.known(prop)
    cases = mod.cases(a.tier, seed)
    if a.n is not None:
        cases = cases[:a.n]
    stats = {}
    digests = set()
    nontrivial_keys = set()
    samples = []
    viol = []       # (index, case, violation)
    errors = []
    results_digest = {}
    steps = [0]
    vclock = [0.0]
    units = [0]

    def on_result(i, case, r):
        if not r["ok"]:
            errors.append((i, r["err"]))
            return
        res = r["res"]
        results_digest[i] = res.get("digest")
        for k, v in (res.get("stats") or {}).items():
            stats[k] = stats.get(k, 0) + v
        steps[0] += res.get("steps", 0)
        vclock[0] += res.get("vclock", 0.0)
        units[0] += res.get("evaluations", 1)
        if res.get("keys") is not None:
            nontrivial_keys.update(res["keys"])
        elif res.get("nontrivial"):
            nontrivial_keys.add(res.get("key") or res.get("digest"))
        digests.add(res.get("digest"))
        if len(samples) < 3 and res.get("nontrivial"):
            samples.append(res.get("sample", case))
        for v in res["violations"]:
            viol.append((i, case, v))

    done = run_cases(mod, cases, a.jobs, budget, on_result)
    if errors and not viol:
        raise HarnessError("%d case(s) failed in the harness; first: case %d: %s" % (
            len(errors), errors[0][0], errors[0][1]))
    if errors:
        # some cases broke the harness AND others reported violations (a library that hangs or crashes part of the time): the
        # violations are reported if they replay; without a replayable one the run still ends as a harness error (below)
        print("harness: %d case(s) failed in the harness beside %d violating case(s); first: case %d: %s" % (
            len(errors), len(viol), errors[0][0], str(errors[0][1])[-300:]), flush=True)

    # corpus: regression traces of fixed findings must pass now
    corpus_checked = 0
    for e in findings.fixed(prop):
        p = os.path.join(VERIF, e["replay"])
        if os.path.exists(p):
            data, res, sigs = replay_file(mod, p)
            corpus_checked += 1
            for v in res["violations"]:
                viol.append((-1, data["case"], v))

    # determinism spot check: re-execute a sample of own cases, digests must agree
    # (cases that reported a violation are re-executed anyway when they are minimised and reproduced; a library that
    # misbehaves non-deterministically - say, a memory address in a version - must surface as that violation, not as
    # a harness error)
    violating = set(i for i, _, _ in viol)
    recheck = [i for i in sorted(results_digest) if splitmix64(seed * 1000003 + i) % 50 == 0 and i not in violating][:8]
    for i in recheck:
        r = _worker_run((mod.__name__, cases[i]))
        if not r["ok"] or r["res"].get("digest") != results_digest[i]:
            raise HarnessError("non-deterministic case %d: %s vs %s" % (
                i, results_digest[i], r.get("res", {}).get("digest") if r["ok"] else r["err"]))

    # classify violations
    known_seen = {}
    new = {}
    for i, case, v in viol:
        sig = signature(prop, v)
        if sig in known:
            known_seen.setdefault(sig, (i, case, v))
        else:
            new.setdefault(sig, (i, case, v))
    exit_code = EXIT_OK
    for sig in sorted(known_seen):
        print("KNOWN-FINDING: property=%s %s" % (prop, known[sig]["what"]), flush=True)
    rep_dir = os.path.join(VERIF, "replays", prop)
    nshr = 0
    unconfirmed = []
    for sig in sorted(new):
        i, case, v = new[sig]
        os.makedirs(rep_dir, exist_ok=True)
        if nshr < 3:
            try:
                small = default_shrink(mod, case, sig, budget_s=float(os.environ.get("VERIF_SHRINK_S", "45")))
            except Exception:
                small = case
            nshr += 1
        else:
            small = case
        res2 = safe_execute(mod, small)
        if not any(signature(prop, x) == sig for x in res2["violations"]):
            for _ in range(4):
                small, res2 = case, safe_execute(mod, case)
                if any(signature(prop, x) == sig for x in res2["violations"]):
                    break
            else:
                # seen by a pool worker, not by the driver: behaviour that depends on the memory layout of the process
                # (e.g. a table keyed by id() of temporaries).  Only violations that replay are reported as such; if none
                # of this run's violations replays, the run ends as a harness error below.
                unconfirmed.append((sig, i))
                print("unconfirmed: %s of case %d did not reproduce on re-execution" % (sig, i), flush=True)
                continue
        name = hashlib.sha256(sig.encode()).hexdigest()[:12] + ".json"
        path = os.path.join(rep_dir, name)
        with open(path, "w") as f:
            json.dump({"property": prop, "signature": sig, "seed": seed, "case_index": i,
                       "digest": res2.get("digest"), "violation": [x for x in res2["violations"]
                                                                 if signature(prop, x) == sig][0],
                       "case": small}, f, indent=1, sort_keys=True, default=repr)
        print("violation: %s\n  detail: %s" % (sig, json.dumps(v["detail"], default=repr)[:1200]))
        print("VIOLATION property=%s replay=%s" % (prop, path), flush=True)
        exit_code = EXIT_VIOLATION

    if unconfirmed and exit_code != EXIT_VIOLATION:
        raise HarnessError("violation %s of case %d did not reproduce on re-execution" % unconfirmed[0])
    if errors and exit_code != EXIT_VIOLATION:
        raise HarnessError("%d case(s) failed in the harness; first: case %d: %s" % (len(errors), errors[0][0], errors[0][1]))

    wall = time.monotonic() - t0
    cov = {
        "evaluations": units[0],
        "cases_executed": done,
        "distinct_nontrivial": len(nontrivial_keys),
        "rule": mod.RULE,
        "samples": samples or [cases[0]] if cases else [],
        "cases_planned": len(cases),
        "distinct_event_log_digests": len(digests),
        "simulated_steps": steps[0],
        "virtual_clock_seconds": vclock[0],
        "runs_per_hour": int(done / wall * 3600) if wall > 0 else 0,
        "counters": dict(sorted(stats.items())),
        "determinism_rechecked_cases": len(recheck),
        "corpus_replays_checked": corpus_checked,
        "known_findings_seen": sorted(known_seen),
        "components": getattr(mod, "COMPONENTS", {}),
        "jobs": a.jobs,
    }
    if hasattr(mod, "coverage_extra"):
        cov.update(mod.coverage_extra(a.tier, stats))
    ev = {"property_id": prop, "tier": a.tier, "seed": seed, "level": mod.LEVEL, "coverage": cov,
          "assumptions": mod.ASSUMPTIONS, "wall_s": round(wall, 2), "violations": len(new)}
    if not a.no_evidence:
        write_evidence(prop, ev)
    zero = [k for k in getattr(mod, "REACH", []) if stats.get(k, 0) == 0]
    print("done: %d/%d cases, %d distinct non-trivial, %d violations (%d known), %.1fs, %d runs/h" % (
        done, len(cases), len(nontrivial_keys), len(new), len(known_seen), wall, cov["runs_per_hour"]))
    if zero:
        print("reach probes at zero: %s" % zero)
    return exit_code
