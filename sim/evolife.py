"""One evo lifetime as a fresh interpreter (own PYTHONHASHSEED): python -m sim.evolife <job.json> <out>"""
import json
import sys


def main(jp, op):
    from sim import world
    world.import_memento()
    from checks import evo
    job = json.load(open(jp))
    out = open(op, "w")

    def emit(obj):
        out.write(json.dumps(obj, sort_keys=True, default=repr) + "\n")
        out.flush()
    evo.lifetime_body(job["root"], job["case"], job["prog"], [tuple(s) for s in job["steps"]], job["memo"], job["li"], emit)
    out.close()


if __name__ == "__main__":
    main(sys.argv[1], sys.argv[2])
