"""One evo lifetime as a fresh interpreter (own PYTHONHASHSEED): python -m sim.evolife <job.json> <out>"""
import json
import sys


def main(jp, op):
    from sim import world
    world.import_memento()
    from checks import evo
    job = json.load(open(jp))
    out = open(op, "w")

    def emit(obj):
        out.write(json.dumps(obj, sort_keys=True, default=repr) + "\n")
        out.flush()
    try:
        evo.lifetime_body(job["root"], job["case"], job["prog"], [tuple(s) for s in job["steps"]], job["memo"], job["li"], emit)
    except BaseException as e:  # noqa  (same classification as core.lifetime: did library code raise it?)
        import traceback
        from sim import core
        emit({"HARNESS": traceback.format_exc()[-3000:], "lib": core.lib_raised(e.__traceback__, type(e)), "exc": type(e).__name__})
    out.close()


if __name__ == "__main__":
    main(sys.argv[1], sys.argv[2])
