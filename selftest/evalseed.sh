#!/bin/sh
# Evaluate a sub-agent's seeded change:  selftest/evalseed.sh <name> <worktree-with-SEEDED> <PROP> [more props...]
# 1. confirm in a fresh scratch worktree: patch applies, 319 tests pass with it, demo FAILs with it and PASSes without
# 2. copy to /verif/seeded/<name>/, 3. run the quick checks against that scratch worktree (VERIF_REPO), remove it.
name="$1"; src="$2"; shift 2
cd "$(dirname "$0")/.." || exit 2
dst="seeded/$name"; mkdir -p "$dst"
cp "$src/SEEDED/patch.diff" "$dst/patch.diff"; cp "$src/SEEDED/demo.py" "$dst/demo.py"; cp "$src/SEEDED/notes.md" "$dst/notes.md" 2>/dev/null
wt=$(mktemp -d /tmp/verif-evalseed-XXXXXX)
git -C /repo worktree add -q --detach "$wt/w" HEAD || exit 2
mkdir -p "$wt/w/SEEDED"; cp "$dst/demo.py" "$wt/w/SEEDED/demo.py"
(cd "$wt/w" && /venv/bin/python SEEDED/demo.py >"$wt/demo_clean.txt" 2>&1; echo $? >"$wt/demo_clean.rc")
if git -C "$wt/w" apply "$PWD/$dst/patch.diff" 2>"$wt/apply.err"; then applied=yes; else applied=no; fi
(cd "$wt/w" && /venv/bin/python SEEDED/demo.py >"$wt/demo_patched.txt" 2>&1; echo $? >"$wt/demo_patched.rc")
(cd "$wt/w" && timeout 900 /venv/bin/python -m pytest -q -p no:cacheprovider --timeout=900 tests 2>&1 | tail -1 >"$wt/tests.txt")
echo "applies=$applied demo_clean_rc=$(cat $wt/demo_clean.rc) demo_patched_rc=$(cat $wt/demo_patched.rc) tests: $(cat $wt/tests.txt)"
tests="$(cat $wt/tests.txt)"; drc="$(cat $wt/demo_patched.rc)"; crc="$(cat $wt/demo_clean.rc)"
results=""
if [ "$applied" = yes ]; then
  # run the quick checks against the scratch worktree that has the change applied (VERIF_REPO), so that /repo itself -
  # which background runs may be using - is never modified
  for p in "$@"; do
    out=$(VERIF_REPO="$wt/w" timeout 1800 ./check "$p" --tier quick --no-evidence 2>&1); rc=$?
    sig=$(echo "$out" | grep "^violation:" | head -2 | tr '\n' ' ' | cut -c1-300)
    echo "check $p: exit=$rc $sig"
    results="$results{\"check\": \"$p\", \"exit\": $rc, \"first_violations\": $(/venv/bin/python -c "import json,sys; print(json.dumps(sys.argv[1]))" "$sig")},"
  done
fi
git -C /repo worktree remove --force "$wt/w"; rm -rf "$wt"
/venv/bin/python - "$dst" "$name" "$applied" "$crc" "$drc" "$tests" "[${results%,}]" "$@" <<'PY'
import json, sys, os
dst, name, applied, crc, drc, tests, results = sys.argv[1:8]
props = sys.argv[8:]
p = os.path.join(dst, "meta.json")
meta = json.load(open(p)) if os.path.exists(p) else {}
meta.update({"name": name, "property": meta.get("property", props[0] if props else None),
             "confirmed": {"patch_applies_to_repo_head": applied == "yes", "demo_exit_without_change": int(crc), "demo_exit_with_change": int(drc),
                           "test_suite_with_change": tests},
             "checks_run": json.loads(results)})
meta["caught_by"] = [r["check"] for r in meta["checks_run"] if r["exit"] == 1]
json.dump(meta, open(p, "w"), indent=1)
print("meta:", json.dumps(meta["caught_by"]))
PY
