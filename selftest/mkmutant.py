"""Helper: python selftest/mkmutant.py <name> <file-relative-to-repo> <<< 'OLD\n===\nNEW'  -> selftest/mutants/<name>.patch"""
import difflib
import os
import sys

name, rel = sys.argv[1], sys.argv[2]
repo = os.environ.get("VERIF_REPO", "/repo")
old, new = sys.stdin.read().split("\n===\n")
new = new.rstrip("\n")
old = old.strip("\n")
src = open(os.path.join(repo, rel)).read()
assert src.count(old) == 1, "pattern occurs %d times" % src.count(old)
dst = src.replace(old, new)
diff = "".join(difflib.unified_diff(src.splitlines(True), dst.splitlines(True), "a/" + rel, "b/" + rel))
out = os.path.join(os.path.dirname(os.path.abspath(__file__)), "mutants", name + ".patch")
mode = "a" if os.path.exists(out) and "--append" in sys.argv else "w"
open(out, mode).write(diff)
print("wrote", out)
