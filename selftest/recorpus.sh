#!/bin/sh
# Re-record the signature/digest of corpus replays against the tree *before* the fix commit.
# usage: selftest/recorpus.sh <fix-commit> <PROP> <corpus files...>
set -e
commit="$1"; prop="$2"; shift 2
tmp=$(mktemp -d /dev/shm/verif-recorpus-XXXXXX)
git -C /repo worktree add -q --detach "$tmp/repo" "$commit^"
for f in "$@"; do VERIF_REPO="$tmp/repo" ./check "$prop" --replay "$f" --rewrite | tail -1; done
git -C /repo worktree remove --force "$tmp/repo"; rm -rf "$tmp"
