#!/bin/sh
# For every "fix:" commit in /repo write the reverse patch as a sensitivity mutant, one per property it was a finding of:
#   selftest/mutants/<prop>-revert-<hash>.patch   (property ids come from known_findings.json)
# Reverse patches that no longer apply to HEAD (a later fix rewrote the same lines) are skipped; names listed in
# selftest/mutants/SKIP are not generated (with the reason given there).
cd "$(dirname "$0")/.."
for c in $(git -C /repo log --format=%h --grep '^fix:' ); do
  props=$(/venv/bin/python -c "
import json
k=json.load(open('known_findings.json'))
print(' '.join(sorted(set(e['property'].lower() for e in k if e.get('commit','').startswith('$c') or '$c'.startswith(e.get('commit','xxxxxxx'))))))")
  git -C /repo diff "$c" "$c^" > /tmp/verif-revert-$c.patch
  if ! git -C /repo apply --check /tmp/verif-revert-$c.patch 2>/dev/null; then echo "revert of $c does not apply to HEAD: skipped"; rm -f selftest/mutants/*-revert-$c.patch /tmp/verif-revert-$c.patch; continue; fi
  for p in $props; do
    name="$p-revert-$c"
    if grep -q "^$name:" selftest/mutants/SKIP 2>/dev/null; then rm -f "selftest/mutants/$name.patch"; continue; fi
    cp /tmp/verif-revert-$c.patch "selftest/mutants/$name.patch"; echo "$name.patch"
  done
  rm -f /tmp/verif-revert-$c.patch
done
