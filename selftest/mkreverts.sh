#!/bin/sh
# For every "fix:" commit in /repo write the reverse patch as a mutant: <props>-revert-<hash>.patch
# usage: selftest/mkreverts.sh   (property ids are taken from known_findings.json)
cd "$(dirname "$0")/.."
for c in $(git -C /repo log --format=%h --grep '^fix:' ); do
  props=$(/venv/bin/python -c "
import json
k=json.load(open('known_findings.json'))
print('+'.join(sorted(set(e['property'].lower() for e in k if e.get('commit','').startswith('$c') or '$c'.startswith(e.get('commit','xxxxxxx'))))))")
  [ -z "$props" ] && props=unknown
  first=$(echo $props | cut -d+ -f1)
  git -C /repo diff "$c" "$c^" > "selftest/mutants/$first-revert-$c.patch"
  echo "$first-revert-$c.patch  (properties: $props)"
done
