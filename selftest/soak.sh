#!/bin/sh
# Many seeds of every quick check on the unchanged tree: any VIOLATION / HARNESS-ERROR here is a false alarm (or a new finding).
# usage: selftest/soak.sh <first-seed> <last-seed> [props...]
cd "$(dirname "$0")/.."
a="$1"; b="$2"; shift 2
props="${*:-C01 C02 C03 C05 C06 C07 C08 C09 C10 C12 C13 C14 C15 C16 C17 C19}"
s="$a"
while [ "$s" -le "$b" ]; do
  for p in $props; do
    out=$(VERIF_SEED=$s VERIF_JOBS=${VERIF_JOBS:-8} timeout 3000 ./check "$p" --tier quick --no-evidence 2>&1); rc=$?
    echo "seed=$s $p exit=$rc $(echo "$out" | grep '^done' | cut -c1-90)"
    if [ "$rc" != 0 ]; then echo "$out" | grep -A2 "^violation\|^VIOLATION\|HARNESS" | head -12; fi
  done
  s=$((s+1))
done
