#!/venv/bin/python
"""selftest/seedmeta.py <name> <change> <needs> [history]  - fill in the descriptive fields of seeded/<name>/meta.json"""
import json, os, sys
name, change, needs = sys.argv[1:4]
hist = sys.argv[4] if len(sys.argv) > 4 else None
p = os.path.join(os.path.dirname(os.path.dirname(os.path.abspath(__file__))), "seeded", name, "meta.json")
m = json.load(open(p))
m["change"] = change
m["needs_to_manifest"] = needs
if hist:
    m["history"] = hist
m["what_was_run"] = ("selftest/evalseed.sh: fresh scratch worktree of /repo HEAD (patch applies, 319 tests pass with it, demo.py exits 1 "
                     "with it and 0 without), then the listed quick checks with VERIF_REPO pointing at that worktree; worktree removed")
m["author"] = "independent sub-agent given only the property text (plus the instruction not to repeat earlier mechanisms) and its own worktree"
json.dump(m, open(p, "w"), indent=1)
