#!/bin/sh
# selftest/withseed.sh <seeded-name> <command...> : run a command with VERIF_REPO pointing at a scratch worktree of /repo
# that has seeded/<name>/patch.diff applied; the worktree is removed afterwards.
name="$1"; shift
cd "$(dirname "$0")/.." || exit 2
wt=$(mktemp -d /tmp/verif-withseed-XXXXXX)
git -C /repo worktree add -q --detach "$wt/w" HEAD || exit 2
git -C "$wt/w" apply "$PWD/seeded/$name/patch.diff" || { echo "patch does not apply"; git -C /repo worktree remove --force "$wt/w"; rm -rf "$wt"; exit 2; }
VERIF_REPO="$wt/w" "$@"; rc=$?
git -C /repo worktree remove --force "$wt/w"; rm -rf "$wt"
exit $rc
