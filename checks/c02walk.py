"""C02, second workload: memoized exceptions in a small call tree, forgotten through Memento objects.

"A raised exception is recorded and replayed the same way ... forgetting a call makes exactly that call run again":
here the forgetting goes through Memento.forget_exceptions_recursively() (and the read-only walks trace() / graph()),
and WHICH leaf calls fail is a switch the history flips between calls (a transient failure that is fixed later), so a
call's memoized outcome can differ from what a recomputation gives.  The functions read the switch through the builtins
side channel: their code, hence their versions, never change.

Reference model: a dictionary call -> (outcome, recorded direct invocations)."""
import shutil

from sim import core, values, world

PROGRAM = '''
import twosigma.memento as m

@m.memento_function
def leaf(x):
    __vtrace__("leaf", x)
    if x in __vget__("failing", ()):
        raise ValueError("boom leaf %d" % x)
    return ["leaf", x]

@m.memento_function
def mid(x):
    __vtrace__("mid", x)
    return ["mid", leaf(x), leaf(x + 1)]

@m.memento_function
def top(x):
    __vtrace__("top", x)
    try:
        a = mid(x)
    except ValueError as e:
        a = ["caught", str(e)[:11]]
    return ["top", a, leaf(x + 2)]
'''

FNS = ["leaf", "mid", "top"]


def gen_case(seed):
    rng = core.stream(seed, "gen")
    ops = []
    for _ in range(rng.randrange(4, 22)):
        r = rng.random()
        fn, x = rng.choice(FNS), rng.randrange(3)
        if r < 0.45:
            ops.append(["call", fn, x])
        elif r < 0.62:
            ops.append(["failing", sorted(rng.sample(range(5), rng.randrange(0, 3)))])
        elif r < 0.80:
            ops.append(["forget_exc", fn, x, rng.random() < 0.25])       # (..., dry run)
        elif r < 0.90:
            ops.append(["walk", fn, x, rng.choice(["trace", "graph", "trace_exc"])])
        elif r < 0.95:
            ops.append(["forget", fn, x])
        else:
            ops.append(["restart"])
    if rng.random() < 0.45:
        # a transient failure that is fixed between two walks over the same tree: the leaf fails, a parent is memoized with
        # the failure, the tree is walked, the leaf is repaired and re-run, the tree is walked again
        x = rng.randrange(3)
        parent = rng.choice(["mid", "mid", "top"])
        bad = x + rng.randrange(2) if parent == "mid" else x + rng.choice([0, 1, 2, 2])
        script = [["failing", [bad]], ["call", parent, x],
                  rng.choice([["forget_exc", parent, x, True], ["walk", parent, x, "trace"], ["walk", parent, x, "graph"]]),
                  ["failing", []], ["forget", "leaf", bad], ["call", "leaf", bad],
                  ["forget_exc", parent, x, False], ["call", "leaf", bad], ["call", parent, x]]
        k = rng.randrange(len(ops) + 1)
        for st in script:       # spread over the random history, order kept
            ops.insert(k, st)
            k += 1 + (rng.randrange(2) if rng.random() < 0.3 else 0)
            k = min(k, len(ops))
        ops = [o for o in ops if o[0] != "restart"]
    return {"seed": seed, "walk": True, "backend": rng.choice(["fs", "fs+cache", "memory"]), "ops": ops}


class Model:
    def __init__(self):
        self.memo = {}      # (fn, x) -> {"out": ["ok", v] | ["exc", msg], "inv": [(fn, x), ...]}
        self.failing = set()

    def call(self, fn, x, runs):
        k = (fn, x)
        if k in self.memo:
            return self.memo[k]["out"]
        runs.append([fn, x])
        inv = []

        def sub(f2, x2):
            inv.append((f2, x2))
            return self.call(f2, x2, runs)
        if fn == "leaf":
            out = ["exc", "boom leaf %d" % x] if x in self.failing else ["ok", ["leaf", x]]
        elif fn == "mid":
            a = sub("leaf", x)
            if a[0] == "exc":
                out = a
            else:
                b = sub("leaf", x + 1)
                out = b if b[0] == "exc" else ["ok", ["mid", a[1], b[1]]]
        else:
            a = sub("mid", x)
            av = ["caught", a[1][:11]] if a[0] == "exc" else a[1]
            b = sub("leaf", x + 2)
            out = b if b[0] == "exc" else ["ok", ["top", av, b[1]]]
        self.memo[k] = {"out": out, "inv": inv}
        return out

    def forget_exc(self, fn, x, dry):
        """what Memento.forget_exceptions_recursively documents: nothing unless this result is an exception; otherwise this
        call and, recursively through the recorded invocations, every call whose CURRENT result is an exception"""
        gone = set()

        def rec(k):
            m_ = self.memo.get(k)
            if m_ is None or m_["out"][0] != "exc" or k in gone:
                return
            gone.add(k)
            for c in m_["inv"]:
                rec(c)
        rec((fn, x))
        if not dry:
            for k in gone:
                del self.memo[k]
        return sorted(gone)


def _segment(root, case, ops, first, failing):
    kind = "memory" if case["backend"] == "memory" else "filesystem"

    def body(emit):
        world.install_seams(case["seed"] + first)
        side = world.SideChannel()
        side.table["failing"] = tuple(failing)
        world.make_env(root, world.make_storage(kind, root, cache_mb=(16.0 / 1024) if case["backend"] == "fs+cache" else None))
        mod = world.load_module("vwalk", PROGRAM)
        for i, op in enumerate(ops):
            rec = {"i": first + i, "op": op}
            try:
                if op[0] == "failing":
                    side.table["failing"] = tuple(op[1])
                elif op[0] == "call":
                    side.take()
                    try:
                        rec["out"] = ["ok", getattr(mod, op[1])(op[2])]
                    except ValueError as e:
                        rec["out"] = ["exc", str(e)[:40]]
                    rec["runs"] = [[t[0], t[1]] for t in side.take()]
                elif op[0] in ("forget_exc", "walk", "forget"):
                    f = getattr(mod, op[1])
                    if op[0] == "forget":
                        f.forget(op[2])
                    else:
                        mem = f.memento(op[2])
                        rec["had_memento"] = mem is not None
                        if mem is not None:
                            if op[0] == "forget_exc":
                                mem.forget_exceptions_recursively(dry_run=op[3])
                            elif op[3] == "graph":
                                mem.graph()
                            else:
                                mem.trace(only_exceptions=(op[3] == "trace_exc"))
            except BaseException as e:  # noqa
                import traceback
                rec["op_raised"] = [type(e).__name__, str(e)[:200], traceback.format_exc()[-900:]]
            emit(rec)
    ev, _ = core.lifetime(body)
    return ev


def execute(case):
    root = core.new_scratch("c02w")
    viol, log, stats = [], [], {"walk_histories": 1}
    model = Model()

    def bump(k, n=1):
        stats[k] = stats.get(k, 0) + n
    try:
        segs = [[]]
        for op in case["ops"]:
            if op[0] == "restart" and case["backend"] != "memory":
                segs.append([])
            elif op[0] != "restart":
                segs[-1].append(op)
        idx = 0
        for seg in segs:
            if not seg:
                continue
            ev = _segment(root, case, seg, idx, sorted(model.failing))
            idx += len(seg)
            for rec in ev:
                op = rec["op"]
                log.append([rec["i"], op, rec.get("out", [None])[0], rec.get("runs")])
                feats = {"op": op[0], "backend": case["backend"]}
                if "op_raised" in rec:
                    viol.append(core.violation("operation-raised", dict(feats, exc=rec["op_raised"][0]), rec))
                    break
                if op[0] == "failing":
                    model.failing = set(op[1])
                elif op[0] == "forget":
                    model.memo.pop((op[1], op[2]), None)
                elif op[0] == "walk":
                    bump("walks")
                elif op[0] == "forget_exc":
                    if (op[1], op[2]) in model.memo:
                        gone = model.forget_exc(op[1], op[2], op[3])
                        bump("forget_exceptions_calls")
                        if len(gone) > 1:
                            bump("forget_exceptions_recursed")
                elif op[0] == "call":
                    runs = []
                    want = model.call(op[1], op[2], runs)
                    got = rec["out"]
                    if got[0] != want[0] or (got[0] == "ok" and not values.deep_equal(got[1], want[1])) \
                            or (got[0] == "exc" and not got[1].startswith(want[1])):
                        viol.append(core.violation("outcome-differs", feats, {"rec": rec, "expected": want}))
                        break
                    if sorted(map(tuple, rec["runs"])) != sorted(map(tuple, runs)):
                        more = [r for r in rec["runs"] if r not in runs]
                        viol.append(core.violation("executed-set-differs", dict(feats, diff="re-executed" if more else "not-executed"),
                                                   {"rec": rec, "expected_runs": runs}))
                        break
                    bump("calls")
                    if not runs:
                        bump("calls_served")
            if viol:
                break
    finally:
        shutil.rmtree(root, ignore_errors=True)
    dg = core.digest_of(log)
    return {"violations": viol[:1], "digest": dg, "nontrivial": stats.get("forget_exceptions_calls", 0) > 0, "stats": stats,
            "steps": len(log), "key": dg, "sample": {"backend": case["backend"], "ops": case["ops"][:12]}}
