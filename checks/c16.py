"""C16 — context arguments key results, flow to nested calls, stay out of parameters (engine `calltree`)."""
import json
import shutil

from sim import core, world
from . import calltree, c10

PROP = "C16"
LEVEL = "exploration"
BUDGET = {"quick": 300, "thorough": 1700}
NCASES = {"quick": 2500, "thorough": 30000}
RULE = ("generated call trees with context-argument overrides (incl. the empty dictionary) attached on drawn inner edges via "
        "with_context_args; the root is run repeatedly under a drawn sequence of root contexts (e.g. A, B, A, none, A); "
        "sub-calls memoized beforehand under the same or another context; a final run calls a drawn node with "
        "with_prevent_further_calls(True); after every run the executed bodies, the parameters they saw and the stored "
        "mementos under every context of the universe are compared with the inheritance model; filesystem / filesystem+cache "
        "/ memory backends, optional restarts; non-trivial = >= 2 distinct root contexts and a tree with >= 2 nodes; distinct = "
        "event-log digest")
ASSUMPTIONS = ["identity treats an empty context dictionary like no context; inheritance treats {} as attached (it stops the caller's "
               "context from flowing down) - both as the code documents and does",
               "prevention is exercised with arguments no other run uses (prevention is not part of the key, so a prevented run's "
               "result is stored under the ordinary key; observed, outside the statement)"]
COMPONENTS = {"real": ["memento_run_batch context inheritance, RecursiveContext, reference hashing with _memento_context_args, modifiers", "fork lifetimes"],
              "stub": ["generated program", "uuid4, clock"]}
REACH = ["trees_with_parameterless_functions", "nonmemoized_outcomes", "inner_prevent_edges", "runs", "runs_reexecuting_nothing", "runs_reexecuting_subset", "ctx_edges", "empty_ctx_edges", "prevent_runs",
         "prevent_nested_calls_refused", "absent_context_probes", "restarts"]

ROOT_CTXS = [None, {"k": 1}, {"k": 2}, {"r": "A"}, {"r": "B", "k": 1}, {}, {"k": True}, {"k": 1.0}, {"k": "1"}]   # 1, True, 1.0, "1": equal or alike, four identities
UNIVERSE = [None, {"k": 1}, {"k": 2}, {"k": 1, "j": "a"}, {"r": "A"}, {"r": "B", "k": 1}, {"k": True}, {"k": 1.0}, {"k": "1"}]


def gen_case(seed):
    rng = core.stream(seed, "gen")
    prog = calltree.gen_tree(rng, feats={"w_ctx": 3, "w_prevent": 0.8, "p_fail": 0.2, "p_nomemo": 0.45, "w_batch": 1.0, "w_map": 0.4, "p_res": 0.0, "p_zero": 0.2})
    ctxs = rng.sample(ROOT_CTXS, rng.randrange(1, 4))
    runs = []
    for _ in range(rng.randrange(2, 7)):
        runs.append({"ctx": ctxs[rng.randrange(len(ctxs))], "x": rng.randrange(2), "restart": rng.random() < 0.15,
                     "how": rng.choice(["single", "single", "batch"])})
    pre = []
    for _ in range(rng.randrange(0, 3)):   # sub-calls memoized beforehand under the same or another context
        pre.append({"node": rng.randrange(len(prog["nodes"])), "x": rng.randrange(3), "ctx": rng.choice(UNIVERSE)})
        if prog["nodes"][pre[-1]["node"]]["params"] == "":
            pre[-1]["x"] = 0
    case = {"seed": seed, "prog": prog, "runs": runs, "pre": pre, "backend": rng.choice(["fs", "fs+cache", "memory"]),
            "prevent": {"node": rng.randrange(len(prog["nodes"])), "how": rng.choice(["single", "batch"])} if rng.random() < 0.6 else None}
    if case["prevent"] and prog["nodes"][case["prevent"]["node"]]["params"] == "":
        case["prevent"] = None      # (a prevented run needs arguments no other run uses; a parameterless function has only one set)
    return case


def cases(tier, seed):
    return [gen_case(core.run_seed(seed, PROP, i)) for i in range(NCASES[tier])]


def _life(root, case, steps, li):
    prog = case["prog"]

    def body(emit):
        import builtins
        world.install_seams(case["seed"] + li)
        side = world.SideChannel()
        kind = "memory" if case["backend"] == "memory" else "filesystem"
        storage = world.make_storage(kind, root, cache_mb=(8.0 / 1024) if case["backend"] == "fs+cache" else None)
        world.make_env(root, storage)
        calltree.install_helpers()
        mod = world.load_module("vtree", calltree.render(prog))
        for st in steps:
            fn = getattr(mod, prog["nodes"][st["node"]]["name"])
            if st.get("ctx") is not None:
                fn = fn.with_context_args(dict(st["ctx"]))
            if st.get("prevent"):
                fn = fn.with_prevent_further_calls(True)
            args = c10.callargs(prog, st["node"], st["x"])
            side.take()
            try:
                if st.get("how") == "batch":
                    r = fn.call_batch([args], raise_first_exception=False)[0]
                    out = ["exc", type(r).__name__, builtins.__vmsg__(r)] if isinstance(r, BaseException) else ["ok", r]
                else:
                    out = ["ok", fn(**args)]
            except Exception as e:  # noqa
                out = ["exc", type(e).__name__, builtins.__vmsg__(e)]
            tr = side.take()
            rec = {"step": st["id"], "out": out, "runs": [[t[0], t[1]] for t in tr], "params": sorted(set(tuple(t[2]) for t in tr))}
            # probe the store: every (node, x) of interest under every context of the universe
            probes = {}
            for (i, x) in st["probe"]:
                pf = getattr(mod, prog["nodes"][i]["name"])
                for ctx in UNIVERSE:
                    f2 = pf.with_context_args(dict(ctx)) if ctx is not None else pf
                    try:
                        mem = f2.memento(**c10.callargs(prog, i, x))
                        probes["%d|%d|%s" % (i, x, json.dumps(ctx, sort_keys=True) if ctx else "")] = \
                            None if mem is None else (mem.invocation_metadata.fn_reference_with_args.context_args or {})
                    except Exception as e:  # noqa
                        probes["%d|%d|%s" % (i, x, json.dumps(ctx, sort_keys=True) if ctx else "")] = {"exc": world.describe_exc(e)}
            rec["probes"] = probes
            emit(rec)
    ev, _ = core.lifetime(body)
    return ev


def execute(case):
    root = core.new_scratch("c16")
    viol = []
    stats = {}
    log = []
    prog = case["prog"]
    model = calltree.Model(prog)

    def bump(k, n=1):
        stats[k] = stats.get(k, 0) + n
    if any(n["params"] == "" for n in prog["nodes"]):
        bump("trees_with_parameterless_functions")
    for n in prog["nodes"]:
        for e in n["edges"]:
            if e["mode"] == "prevent":
                bump("inner_prevent_edges")
            if e["mode"] == "ctx":
                bump("ctx_edges")
                if e["ctx"] == {}:
                    bump("empty_ctx_edges")
    try:
        # plan: pre-steps, runs, prevent-run; compute model expectations on the way
        present = set()
        steps = []
        expect = []
        sid = 0

        def plan(node, x, ctx, prevent=False, how="single", restart=False):
            nonlocal sid
            calls = {}
            eff = ctx if ctx else None
            out, _ = model.run(node, x, eff, prevent, calls)
            newly = []

            def visit(key):
                if key in present:
                    return
                if calls[key]["outcome"][:2] == ["exc", "VNoMemo"]:
                    stats["nonmemoized_outcomes"] = stats.get("nonmemoized_outcomes", 0) + 1     # executes, is never stored
                else:
                    present.add(key)
                newly.append(key)
                if calls[key].get("prevent"):
                    return
                for j, xv, e2 in calls[key]["invocations"]:
                    visit(calltree.Model.key(j, xv, e2))
            visit(calltree.Model.key(node, x, eff))
            probe = sorted(set((calls[k]["node"], calls[k]["x"]) for k in calls))
            steps.append({"id": sid, "node": node, "x": x, "ctx": ctx, "prevent": prevent, "how": how, "restart": restart, "probe": probe})
            expect.append({"out": out, "newly": newly, "calls": calls, "present_after": set(present), "prevent": prevent})
            sid += 1
        for p in case["pre"]:
            plan(p["node"], p["x"], p["ctx"])
        for r in case["runs"]:
            plan(0, r["x"], r["ctx"], how=r["how"], restart=r["restart"])
        if case["prevent"]:
            plan(case["prevent"]["node"], 50, None, prevent=True, how=case["prevent"]["how"])
        # lifetimes
        groups = [[]]
        for st in steps:
            if st["restart"] and case["backend"] != "memory" and groups[-1]:
                groups.append([])
                bump("restarts")
            groups[-1].append(st)
        recs = []
        for gi, g in enumerate(groups):
            recs += _life(root, case, g, gi)
        for rec, st, ex in zip(recs, steps, expect):
            log.append([rec["step"], rec["out"][:2], rec["runs"]])
            bump("runs")
            feats = {"how": st["how"], "prevent": st["prevent"]}
            # (1) parameters seen by bodies
            for ps in rec["params"]:
                if list(ps) not in (["x"], ["x", "y"], []):
                    viol.append(core.violation("context-args-leaked-into-parameters", feats, {"params": ps, "step": st}))
                    break
            if viol:
                break
            # outcome
            want = calltree.jsonable(ex["out"])
            got = calltree.jsonable(rec["out"])
            if got[:2] != want[:2] and not (got[0] == "exc" and want[0] == "exc" and got[1] == want[1]):
                viol.append(core.violation("outcome-differs", feats, {"got": got, "expected": want, "step": {k: st[k] for k in ("node", "x", "ctx", "prevent")}}))
                break
            # (2) exactly the calls with a new effective context execute
            want_runs = {}
            for key in ex["newly"]:
                c = ex["calls"][key]
                k2 = "%s|%d" % (prog["nodes"][c["node"]]["name"], c["x"])
                want_runs[k2] = want_runs.get(k2, 0) + 1
            got_runs = {}
            for name, x in rec["runs"]:
                k2 = "%s|%d" % (name, x)
                got_runs[k2] = got_runs.get(k2, 0) + 1
            if got_runs != want_runs:
                more = sorted(k for k in got_runs if got_runs[k] > want_runs.get(k, 0))
                less = sorted(k for k in want_runs if want_runs[k] > got_runs.get(k, 0))
                viol.append(core.violation("executed-set-differs", dict(feats, diff="re-executed" if more and not less else "not-executed" if less and not more else "both"),
                                           {"executed_unexpectedly": more, "not_executed": less, "step": {k: st[k] for k in ("node", "x", "ctx", "prevent")},
                                            "newly_expected": ex["newly"]}))
                break
            if not ex["newly"]:
                bump("runs_reexecuting_nothing")
            elif len(ex["newly"]) < len(ex["calls"]):
                bump("runs_reexecuting_subset")
            if st["prevent"]:
                bump("prevent_runs")
                nested = [r for r in rec["runs"] if r[0] != prog["nodes"][st["node"]]["name"]]
                if nested:
                    viol.append(core.violation("nested-call-executed-despite-prevention", feats, {"runs": rec["runs"]}))
                    break
                if prog["nodes"][st["node"]]["edges"]:
                    bump("prevent_nested_calls_refused")
            # (3) mementos exist exactly under the contexts the calls ran in
            for pk, pv in sorted(rec["probes"].items()):
                bump("absent_context_probes")
                should = pk in ex["present_after"]
                if isinstance(pv, dict) and "exc" in pv:
                    viol.append(core.violation("memento-query-raised", feats, {"probe": pk, "exc": pv}))
                    break
                if (pv is not None) != should:
                    viol.append(core.violation("memento-under-wrong-context", dict(feats, expected="present" if should else "absent"),
                                               {"probe": pk, "got": pv, "step": {k: st[k] for k in ("node", "x", "ctx")}}))
                    break
                if should:
                    ctx_s = pk.split("|", 2)[2]
                    wantctx = json.loads(ctx_s) if ctx_s else {}
                    if pv != wantctx:
                        viol.append(core.violation("memento-records-other-context", feats, {"probe": pk, "got": pv, "expected": wantctx}))
                        break
            if viol:
                break
    finally:
        shutil.rmtree(root, ignore_errors=True)
    dg = core.digest_of(log)
    distinct_ctx = len(set(json.dumps(r["ctx"], sort_keys=True) if r["ctx"] else "" for r in case["runs"]))
    return {"violations": viol[:1], "digest": dg, "nontrivial": distinct_ctx >= 2 and len(prog["nodes"]) >= 2, "stats": stats,
            "steps": len(log), "key": dg,
            "sample": {"backend": case["backend"], "runs": case["runs"], "pre": case["pre"], "prevent": case["prevent"],
                       "nodes": [[n["name"], [[e["to"], e["mode"], e.get("ctx")] for e in n["edges"]]] for n in prog["nodes"]]}}
