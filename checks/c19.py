"""C19 — read-only and null back-ends never write and never execute (engine `store` + function-level calls)."""
import shutil

from sim import core, simfs, values, world
from . import storeops

PROP = "C19"
LEVEL = "exploration"
BUDGET = {"quick": 200, "thorough": 1500}
NCASES = {"quick": 3000, "thorough": 40000}
RULE = ("phase 1 populates a filesystem store through a writable backend (seeded C05 history); phase 2 opens it read-only "
        "(flag from constructor argument or from the configuration dictionary, with/without memory cache, shared/separate "
        "metadata path) and runs C05 histories plus function-level calls, forget, forget_all, put_metadata, forget_cluster "
        "under a mutation-intolerant FS seam, with a (path -> sha256) snapshot compared before/after; every third case "
        "instead drives null storage or null runner clusters; non-trivial = phase 2 has >=3 ops; distinct = event-log digest")
ASSUMPTIONS = ["CPython audit events cover every mutating file operation", "force_local (defined to override the cluster runner) is not used with the null runner"]
COMPONENTS = {"real": ["storage backends, runner backends, MementoFunction call path", "tmpfs", "audit-hook FS seam"],
              "stub": ["uuid4 (seeded)", "clock (virtual)"]}
REACH = ["calls_recomputed_after_read_error", "null_runner_on_damaged_store", "ro_on_damaged_store", "ro_metadata_with_data_attempts", "ro_ops", "calls_served", "calls_executed", "ro_rejections", "null_storage_calls", "null_runner_calls", "mutation_events_armed"]


def gen_ro_ops(rng, n, knobs):
    ops = storeops.gen_ops(rng, n, knobs, "c19")
    out = []
    fns = storeops.FN_NAMES
    for op in ops:
        r = rng.random()
        if r < 0.25:
            out.append(["call", fns[rng.randrange(4)], rng.randrange(4)])
        elif r < 0.30:
            out.append(["fforget", fns[rng.randrange(4)], rng.randrange(4)])
        elif r < 0.33:
            out.append(["fforget_all", fns[rng.randrange(4)]])
        elif r < 0.37:
            out.append(["fputmeta", fns[rng.randrange(4)], rng.randrange(4), "log", rng.random() < 0.5])
        elif r < 0.39:
            out.append(["forget_cluster"])
        out.append(op) if op[0] != "restart" or rng.random() < 0.5 else None
    return out


def cases(tier, seed):
    out = []
    for i in range(NCASES[tier]):
        s = core.run_seed(seed, PROP, i)
        rng = core.stream(s, "gen")
        if i % 3 == 2:
            mode = "null-storage" if rng.random() < 0.5 else "null-runner"
            calls = [[rng.choice(["fa#1", "fab#1", "fb#2", "outer#3"]), rng.randrange(3),
                      rng.choice(["call", "call", "batch", "ignore", "ctx", "ctx", "partial"])]
                     for _ in range(rng.randrange(2, 10))]
            c = {"seed": s, "mode": mode, "pre": rng.random() < 0.6, "ops": calls}
            if mode == "null-runner" and c["pre"] and rng.random() < 0.3:
                c["damage"] = rng.choice(["data", "links"])     # result objects (or their links) lost after the store was filled
            out.append(c)
            continue
        kn = storeops.gen_knobs(rng, backends=("fs", "fs+cache"))
        pop = storeops.gen_ops(rng, rng.randrange(4, 25), kn, "c07")
        pop = [o for o in pop if o[0] != "restart"]
        how = rng.choice(["argument", "config", "argument-over-config", "toggle", "repo-template", "config-reused", "create-after-writable"])
        case = {"seed": s, "mode": "read-only", "knobs": kn, "via_config": how == "config", "ro_how": how,
                "ro_roundtrip": rng.random() < 0.3, "populate": pop,
                "ops": gen_ro_ops(rng, rng.randrange(3, 30), kn)}
        if rng.random() < 0.4:
            # reported I/O errors while calls through the read-only store read what is stored: such a call computes again;
            # every later call must be served as before
            case["ro_faults"] = {str(oi): {"read": True} for oi, op in enumerate(case["ops"]) if op[0] == "call" and rng.random() < 0.4}
        if rng.random() < 0.35:
            # the store being opened read-only was damaged earlier: some writes of the populate phase hit reported I/O errors
            # (empty / truncated link files, orphan objects)
            faults = {}
            for oi, op in enumerate(pop):
                if op[0] == "memoize" and rng.random() < 0.4:
                    v = rng.choice([("error-first-write", {}), ("short-error", {"cut": "half"}), ("short-error", {"cut": "allbut1"}), ("error-before", {})])
                    faults[str(oi)] = dict(variant=v[0], k=rng.randrange(1, 14), errno="ENOSPC", **v[1])
            case["populate_faults"] = faults
        out.append(case)
    return out


def _exec_ro(case):
    root = core.new_scratch("c19")
    kn = case["knobs"]

    def body(emit):
        world.install_seams(case["seed"])
        W = storeops.World(root, kn)
        log = []
        model = storeops.DictStore()
        if case.get("populate_faults"):
            simfs.arm(W.roots())
        v0, st0 = storeops.run_ops(W, case["populate"], set(), log.append, model=model, faults=case.get("populate_faults"))
        simfs.disarm()
        damaged = st0.get("memoize_failed_with_io_error", 0)
        if v0:
            emit({"viol": [], "stats": {"populate_diverged": 1}, "log": log})
            return
        W.read_only = True
        W.ro_via_config = case["via_config"]
        W.ro_how = case.get("ro_how")
        W.ro_roundtrip = case.get("ro_roundtrip", False)
        W.be = W.make_backend()
        world.make_env(root, None, clusters={"c5": W.be})
        if not W.be.read_only:
            emit({"viol": [["read-only-flag-not-honoured", {"via": case.get("ro_how") or ("config" if case["via_config"] else "argument"), "roundtrip": bool(case.get("ro_roundtrip"))}, {}]], "stats": {}, "log": log})
            return
        before = simfs.snapshot_tree(root)
        simfs.arm(W.roots(), intolerant=True)
        v, st = storeops.run_ops(W, case["ops"], {"ro", "lenient"} if damaged else {"ro"}, log.append, model=model, faults=case.get("ro_faults"))
        simfs.disarm()
        after = simfs.snapshot_tree(root)
        if before != after and not v:
            diff = sorted(set(before.items()) ^ set(after.items()))[:4]
            v = [("read-only-tree-changed", {"backend": kn["backend"]}, {"diff": diff})]
        st["ro_ops"] = len(log) - len(case["populate"])
        st["ro_rejections"] = sum(1 for o in log if o[2] == "rejected")
        st["mutation_events_armed"] = 1
        if damaged:
            st["ro_on_damaged_store"] = 1
        emit({"viol": [[c, f, d] for c, f, d in v], "stats": st, "log": log})
    try:
        ev, _ = core.lifetime(body)
    finally:
        shutil.rmtree(root, ignore_errors=True)
    return ev[-1]


NESTED_SRC = '''

@m.memento_function(cluster="c5", version="3")
def outer(x):
    __vtrace__("outer", x)
    return [fa(x), "outer"]
'''


def _exec_null(case):
    root = core.new_scratch("c19n")
    mode = case["mode"]

    def body(emit):
        from twosigma.memento.storage_null import NullStorageBackend
        from twosigma.memento.runner_null import NullRunnerBackend
        from twosigma.memento import Environment, FunctionCluster, ConfigurationRepository
        world.install_seams(case["seed"])
        side = world.SideChannel()
        viol = []
        log = []
        st = {}
        fsb = world.make_storage("filesystem", root)
        if mode == "null-storage":
            cl = FunctionCluster(name="c5", storage=NullStorageBackend())
        else:
            cl = FunctionCluster(name="c5", storage=fsb, runner=NullRunnerBackend())
        import os
        os.makedirs(root + "/env", exist_ok=True)
        env = Environment(name="sim", base_dir=root + "/env", repos=[ConfigurationRepository(name="r", clusters={"c5": cl})])
        Environment.set(env)
        mod = world.load_module("vstore", storeops.FN_SRC + NESTED_SRC)
        fns = {"fa#1": mod.fa, "fab#1": mod.fab, "fb#2": mod.fb, "outer#3": mod.outer}
        if mode == "null-runner" and case["pre"]:
            # pre-populate the store through a local runner so that memoized results exist
            cl.runner = __import__("twosigma.memento.runner_local", fromlist=["x"]).LocalRunnerBackend()
            for fn, x, _ in case["ops"][:3]:
                fns[fn](x)
            cl.runner = NullRunnerBackend()
            side.take()
            if case.get("damage"):
                import glob
                pat = "/data/c/.versions/*/*" if case["damage"] == "data" else "/data/c/*.link"
                for pth in sorted(glob.glob(root + pat)):
                    os.remove(pth)
                st["null_runner_on_damaged_store"] = 1
        for i, (fn, x, how) in enumerate(case["ops"]):
            side.take()
            f = fns[fn]
            try:
                if how == "call":
                    r = ["ok", f(x)]
                elif how == "batch":
                    r = ["ok", f.call_batch([{"x": x}, {"x": x + 1}], raise_first_exception=False)]
                    r = ["ok", [values.summary(z) for z in r[1]]]
                elif how == "ctx":
                    r = ["ok", f.with_context_args({"k": 1})(x)]
                elif how == "partial":
                    r = ["ok", f.partial(x)()]
                else:
                    r = ["ok", f.ignore_result()(x)]
            except Exception as e:  # noqa
                r = ["exc", type(e).__name__]
            runs = len(side.take())
            log.append([i, fn, x, how, r, runs])
            if mode == "null-storage":
                st["null_storage_calls"] = st.get("null_storage_calls", 0) + 1
                exp_runs = (2 if how == "batch" else 1) * (2 if fn == "outer#3" else 1)
                if runs != exp_runs or r[0] != "ok":
                    viol.append(("null-storage-call-not-executed", {"how": how}, {"i": i, "runs": runs, "res": r}))
                ref = f.fn_reference().with_args(x)
                stg = cl.storage
                if stg.is_memoized(f.fn_reference(), ref.arg_hash) or stg.get_memento(ref.fn_reference_with_arg_hash()) is not None \
                        or f.memento(x) is not None or stg.list_functions():
                    viol.append(("null-storage-reports-memoized", {"how": how}, {"i": i}))
            else:
                st["null_runner_calls"] = st.get("null_runner_calls", 0) + 1
                if runs != 0:
                    viol.append(("null-runner-executed-body", {"how": how}, {"i": i, "runs": runs, "res": r}))
                elif r[0] == "exc" and r[1] != "RuntimeError":
                    viol.append(("null-runner-unexpected-exception", {"how": how, "exc": r[1]}, {"i": i}))
            if viol:
                break
        emit({"viol": [[c, f_, d] for c, f_, d in viol], "stats": st, "log": log})
    try:
        ev, _ = core.lifetime(body)
    finally:
        shutil.rmtree(root, ignore_errors=True)
    return ev[-1]


def execute(case):
    r = _exec_ro(case) if case["mode"] == "read-only" else _exec_null(case)
    viol = [core.violation(c, f, d) for c, f, d in r["viol"]][:1]
    dg = core.digest_of(r["log"])
    return {"violations": viol, "digest": dg, "nontrivial": len(case["ops"]) >= 3, "stats": r["stats"], "steps": len(r["log"]),
            "key": dg, "sample": {k: case[k] for k in ("mode", "knobs", "via_config") if k in case} | {"ops": case["ops"][:10]}}
