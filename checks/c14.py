"""C14 — the static dependency closure is exact and calls outside it are refused (engine `evo`)."""
from sim import core
from . import evo

PROP = "C14"
LEVEL = "exploration"
BUDGET = {"quick": 300, "thorough": 1700}
NCASES = {"quick": 1500, "thorough": 20000}
RULE = ("generated packages (3-9 memento/plain functions over 1-3 modules; constants, nested code, set/tuple constants, "
        "f-strings, positional and keyword-only defaults, globals of supported types, bare/module-attribute/alias/hidden "
        "call edges, recursion, explicit versions, salts) x histories of 1-8 edits (constants, defaults, globals rebind / "
        "in-place mutation, add/remove/retarget/insert call edges, memento<->plain swaps, salt, explicit-version bumps) "
        "delivered cross-process (files rewritten, fresh lifetime, same store) or in-process (cell re-execution of one def "
        "or of the whole module, attribute rebinding, in-place mutation); after every edit auto-versioned functions are "
        "called plainly or through call/ignore_result/force_local/partial/with_context_args and compared with a sibling "
        "lifetime running the same texts with a pass-through decorator; non-trivial = at least one edit followed by a "
        "call; distinct = distinct event-log digest")
ASSUMPTIONS = ["user discipline: an edit inside the closure of an explicitly versioned function also bumps that version",
               "aliases of a redefined function are re-bound (as a user re-running the cell would)",
               "the reference is real Python executing the same source units, not a model of Python",
               "fork()ed lifetimes share one hash seed (hash-seed variation is C03's subject)"]
COMPONENTS = {"real": ["twosigma.memento (all)", "CPython import system / exec of cells", "filesystem store on tmpfs", "process lifetimes via fork"],
              "stub": ["generated user program", "uuid4, clock"]}
REACH = ["mishaps", "programs_with_lambda_helpers", "programs_with_declared_dependencies", "histories_without_explicit_version_bumps", "programs_with_mutual_recursion", "edits_cross_process", "edits_in_process", "restarts", "served_from_store", "ude_raised", "via:partial",
         "via:ignore_result", "delivery:inproc-mutate", "delivery:inproc-module"]


def cases(tier, seed):
    out = [evo.gen_history(core.run_seed(seed, PROP, i)) for i in range(NCASES[tier])]
    # dependency reports must be exact at every state, whether or not the user bumped an explicit version: histories of
    # in-process edits without the bump, with the reports compared after (almost) every edit and no calls
    for i in range(NCASES[tier] // 3):
        out.append(evo.gen_history(core.run_seed(seed, PROP + "-nodisc", i), inproc_only=True, discipline=False,
                                   features={"p_explicit": 0.5, "p_hidden": 0.0, "p_alias": 0.4}))
    out.extend(crafted_cases())
    return out


def crafted_cases():
    """Hand-written programs for an order of events the generator draws rarely: a LEGAL nested call (through an explicitly
    versioned function, which is exempt from the check) reaches a function first, and the auto-versioned caller then calls
    that function itself through a hidden route - which must still be refused."""
    from sim import progen
    from .c01 import _node
    out = []
    for variant in (0, 1):
        if variant == 0:
            nodes = [_node(0, "f0", calls=(1,)), _node(1, "f1", explicit="e1"), _node(2, "f2")]
            nodes[1]["calls"].append({"to": 2, "form": "hidden"})    # (an explicitly versioned caller is not checked)
            nodes[0]["calls"].append({"to": 2, "form": "hidden"})
        else:
            nodes = [_node(0, "f0", calls=(1,)), _node(1, "f1", calls=(3,)), _node(2, "f2"), _node(3, "f3", explicit="e3")]
            nodes[3]["calls"].append({"to": 2, "form": "hidden"})
            nodes[0]["calls"].append({"to": 2, "form": "hidden"})
        for via in ("plain", "context", "partial", "ignore_result"):
            prog = {"modules": ["m0"], "pkg": [0], "globals": [], "order": {}, "bshadow": {}, "nodes": [dict(n, calls=[dict(c) for c in n["calls"]]) for n in nodes]}
            prog["order"]["0"] = progen.default_order(prog, 0)
            steps = [{"op": "call", "node": 0, "x": 1, "via": via, "twice": True},
                     {"op": "edit", "edit": {"kind": "const", "node": 2, "value": 7}, "delivery": "restart", "n": 2},
                     {"op": "call", "node": 0, "x": 1, "via": via, "twice": False}]
            out.append({"seed": 434300 + len(out), "prog": prog, "steps": steps, "cache": False, "crafted": "legal-nested-call-reaches-callee-first"})
    return out


def execute(case):
    viol, log, stats = evo.execute_history(case, {"c14"})
    if case.get("crafted"):
        stats["crafted_histories"] = 1
    dg = core.digest_of(log)
    nontriv = any(s["op"] == "edit" for s in case["steps"]) and (stats.get("calls", 0) > 0 or stats.get("deps_states", 0) > 1)
    return {"violations": viol, "digest": dg, "nontrivial": nontriv, "stats": stats, "steps": len(log), "key": dg,
            "sample": {"modules": case["prog"]["modules"], "nodes": [[n["name"], n["kind"], [c["to"] for c in n["calls"]]] for n in case["prog"]["nodes"]],
                       "steps": [s if s["op"] != "edit" else {"edit": s["edit"]["kind"], "delivery": s["delivery"]} for s in case["steps"][:10]]}}


def shrink(case, same, budget_s):
    def test(steps):
        c = dict(case)
        c["steps"] = steps
        return same(c)
    c = dict(case)
    c["steps"] = core.ddmin_list(case["steps"], test, budget_s=budget_s, min_len=1)
    return c


# ----------------------------------------------------------------------------- exhaustive part: all reference graphs over 3 nodes

def _graph_src(kinds, edges, names):
    out = ["import twosigma.memento as m", ""]
    n = len(kinds)
    for i in range(n):
        if kinds[i]:
            out.append("@m.memento_function")
        out.append("def %s(x):" % names[i])
        out.append("    if x <= 0:")
        out.append("        return 0")
        calls = " + ".join("%s(x - 1)" % names[j] for j in range(n) if edges[i][j]) or "0"
        out.append("    return 1 + %s" % calls)
        out.append("")
    return "\n".join(out)


def _graph_expected(kinds, edges, modname, names):
    n = len(kinds)

    def reach_through_all(i):
        seen, st = set(), [j for j in range(n) if edges[i][j]]
        while st:
            j = st.pop()
            if j in seen:
                continue
            seen.add(j)
            st.extend(k for k in range(n) if edges[j][k])
        return seen

    def first_memento(i):
        seen, st, out = set(), [j for j in range(n) if edges[i][j]], set()
        while st:
            j = st.pop()
            if j in seen:
                continue
            seen.add(j)
            if kinds[j]:
                if j != i:
                    out.add(j)
            else:
                st.extend(k for k in range(n) if edges[j][k])
        return out
    q = lambda j: "%s:%s" % (modname, names[j])
    exp = {}
    for i in range(n):
        if not kinds[i]:
            continue
        trans = sorted(q(j) for j in reach_through_all(i) if kinds[j] and j != i)
        direct = sorted(q(j) for j in range(n) if edges[i][j] and kinds[j] and j != i)
        nodes = set([i]) | set(j for j in reach_through_all(i) if kinds[j])
        ed = sorted([q(a), q(b)] for a in nodes for b in first_memento(a))
        exp[names[i]] = {"trans": trans, "direct": direct, "edges": ed}
    return exp


def _exec_graphs(case):
    import shutil
    import sys
    from sim import world
    root = core.new_scratch("c14g")
    names = ["ga", "gb", "gc"]

    def body(emit):
        world.install_seams(1)
        world.SideChannel()
        world.make_env(root, world.make_storage("memory", root))
        bad = None
        count = 0
        for code in range(case["lo"], case["hi"]):
            kinds = [(code >> b) & 1 for b in range(3)]
            ebits = code >> 3
            edges = [[(ebits >> (i * 3 + j)) & 1 for j in range(3)] for i in range(3)]
            if not any(kinds):
                continue
            modname = "vgraph.g%d" % code
            mod = world.load_module(modname, _graph_src(kinds, edges, names))
            exp = _graph_expected(kinds, edges, modname, names)
            count += 1
            for nm in sorted(exp):
                fn = getattr(mod, nm)
                g = fn.dependencies()
                got = {"trans": sorted(f.qualified_name_without_version for f in g.transitive_memento_fn_dependencies()),
                       "direct": sorted(f.qualified_name_without_version for f in g.direct_memento_fn_dependencies())}
                df = g.df()
                got["edges"] = sorted([r["src"], r["target"]] for _, r in df.iterrows())
                for what in ("trans", "direct", "edges"):
                    if got[what] != exp[nm][what]:
                        bad = {"code": code, "kinds": kinds, "edges": edges, "fn": nm, "what": what, "got": got[what], "expected": exp[nm][what]}
                        break
                if bad:
                    break
            if bad:
                break
        emit({"bad": bad, "count": count})
    try:
        ev, _ = core.lifetime(body, timeout=600)
    finally:
        shutil.rmtree(root, ignore_errors=True)
    r = ev[-1]
    viol = []
    if r["bad"]:
        b = r["bad"]
        viol.append(core.violation("dependency-%s-inexact" % b["what"], {"mode": "exhaustive-3-node-graphs",
                                   "diff": "missing" if len(b["got"]) < len(b["expected"]) else "extra"}, b))
    dg = core.digest_of([case["lo"], case["hi"], r["bad"]])
    return {"violations": viol, "digest": dg, "nontrivial": True, "stats": {"exhaustive_graphs": r["count"]}, "steps": r["count"],
            "keys": [dg], "evaluations": r["count"],
            "sample": {"mode": "exhaustive-3-node-graphs", "codes": [case["lo"], case["hi"]],
                       "example_source": _graph_src([1, 0, 1], [[0, 1, 0], [0, 0, 1], [1, 0, 0]], names)}}


_orig_cases14 = cases
_orig_execute14 = execute


def cases(tier, seed):
    out = _orig_cases14(tier, seed)
    step = 128
    for lo in range(0, 4096, step):
        out.append({"seed": 1, "mode": "graphs", "lo": lo, "hi": lo + step})
    return out


def execute(case):
    if case.get("mode") == "graphs":
        return _exec_graphs(case)
    return _orig_execute14(case)


RULE = RULE + ("; plus ALL 3 584 reference graphs over 3 nodes of kinds {memento, plain} with arbitrary bare-name edges incl. self loops "
               "and cycles (exhaustive): transitive / direct dependencies and df() edges of every memento node vs. reachability")
