"""C08 — a crash or I/O fault at any point of a write never poisons the filesystem store.

Engine `crash`: enumerate every mutating FS event of a memoization scenario x fault variant;
lifetime 1 takes the fault (real process death for crashes), later fault-free lifetimes
evaluate the oracle.  DESIGN.md 3.3 / C08."""
import hashlib
import os
import shutil

from sim import core, simfs, world

PROP = "C08"
LEVEL = "fault_enumeration"
BUDGET = {"quick": 240, "thorough": 1500}
RULE = ("cases = scenario x {cache on/off} x {shared/separate metadata path} x every mutating FS event k of the "
        "faulted call x every applicable fault variant (quick: all single faults, exhaustive; thorough: plus seeded "
        "fault sequences of length 2-3 incl. crash during recovery). A case is non-trivial when its fault actually "
        "fired; distinct = distinct (scenario, config, event kind+path class, variant, outcome digest).")
ASSUMPTIONS = [
    "crash = process death (os._exit) on a local filesystem; lost page cache (power failure) is not modelled",
    "CPython audit events cover every mutating file operation the library performs",
    "faults are injected only at mutating operations under the store roots during memoization (reads are fault-free)",
]
COMPONENTS = {"real": ["twosigma.memento (all)", "CPython file API", "tmpfs directory tree", "process death via fork/_exit"],
              "stub": ["uuid4 (seeded)", "wall clock (virtual)", "user program (fixed scenario module)"]}
REACH = ["fired:error-at-close", "fired:crash-at-close", "non_ascii_store_path", "window_cases", "twin_asked_first", "fired:crash-before", "fired:error-before", "fired:crash-after-open", "fired:torn", "fired:short-error",
         "fired:error-first-write", "dedup_path_taken", "recovered_after_fault"]

PROGRAM = '''
import twosigma.memento as m
from twosigma.memento.partition import InMemoryPartition
from twosigma.memento.result import KeyOverrideResult

@m.memento_function
def f(x):
    __vtrace__("f", x)
    return [x, "hello"]

@m.memento_function
def g(x):
    __vtrace__("g", x)
    return [x, "hello"]

@m.memento_function
def u(x):
    __vtrace__("u", x)
    return x * 3

@m.memento_function
def fp(x):
    __vtrace__("fp", x)
    return InMemoryPartition({"a": [x, "pa"], "b": "pb%d" % x})

@m.memento_function
def gp(x):
    __vtrace__("gp", x)
    return InMemoryPartition({"a": [x, "pa"], "b": "pb%d" % x})

@m.memento_function
def fe(x):
    __vtrace__("fe", x)
    raise ValueError("boom %d" % x)

@m.memento_function
def ge(x):
    __vtrace__("ge", x)
    raise ValueError("boom %d" % x)

@m.memento_function
def fz(x):
    __vtrace__("fz", x)
    return None

@m.memento_function
def gz(x):
    __vtrace__("gz", x)
    return None

@m.memento_function
def fk(x):
    __vtrace__("fk", x)
    return KeyOverrideResult(["kv", x], "ko/k1")

@m.memento_function
def gk(x):
    __vtrace__("gk", x)
    return KeyOverrideResult(["kv", x], "ko/k2")

@m.memento_function
def fkc(x):
    __vtrace__("fkc", x)
    return KeyOverrideResult(["kv", "same"], "ko/k3")

@m.memento_function
def gkc(x):
    __vtrace__("gkc", x)
    return KeyOverrideResult(["kv", "same"], "ko/k3")

@m.memento_function
def par(x):
    __vtrace__("par", x)
    return [f(x), "par"]

@m.memento_function
def par2(x):
    __vtrace__("par2", x)
    return [f(x), "par"]

@m.memento_function
def ff(x):
    __vtrace__("ff", x)
    import pandas as pd
    return pd.DataFrame({"a": [x, 2, 3], "b": ["p", "q", "r"]})

@m.memento_function
def gf(x):
    __vtrace__("gf", x)
    import pandas as pd
    return pd.DataFrame({"a": [x, 2, 3], "b": ["p", "q", "r"]})

@m.memento_function
def fa(x):
    __vtrace__("fa", x)
    import numpy as np
    return np.arange(x, x + 6, dtype="int64").reshape(2, 3)

@m.memento_function
def ga(x):
    __vtrace__("ga", x)
    import numpy as np
    return np.arange(x, x + 6, dtype="int64").reshape(2, 3)

@m.memento_function
def fm(x):
    __vtrace__("fm", x)
    p = InMemoryPartition({"b": "own", "c": [x]})
    p._merge_parent = fp(x)
    return p

@m.memento_function
def gm(x):
    __vtrace__("gm", x)
    p = InMemoryPartition({"b": "own", "c": [x]})
    p._merge_parent = fp(x)
    return p

@m.memento_function
def fd(x):
    __vtrace__("fd", x)
    return {"k": [x, "hello"], "n": {"deep": (x, 2.5, None, True)}, "s": "text" * 40}

@m.memento_function
def gd(x):
    __vtrace__("gd", x)
    return {"k": [x, "hello"], "n": {"deep": (x, 2.5, None, True)}, "s": "text" * 40}
'''


def expect(fn, x):
    if fn in ("f", "g"):
        return ["ok", [x, "hello"]]
    if fn == "u":
        return ["ok", x * 3]
    if fn in ("fp", "gp"):
        return ["ok", {"__partition__": {"a": [x, "pa"], "b": "pb%d" % x}}]
    if fn in ("fe", "ge"):
        return ["exc", "ValueError", "boom %d" % x]
    if fn in ("fz", "gz"):
        return ["ok", None]
    if fn in ("fk", "gk"):
        return ["ok", ["kv", x]]
    if fn in ("fkc", "gkc"):
        return ["ok", ["kv", "same"]]
    if fn in ("par", "par2"):
        return ["ok", [[x, "hello"], "par"]]
    if fn in ("ff", "gf"):
        return ["ok", {"__frame__": {"a": [x, 2, 3], "b": ["p", "q", "r"]}, "index": [0, 1, 2], "dtypes": ["int64", "object"]}]
    if fn in ("fa", "ga"):
        return ["ok", {"__nd__": [[x, x + 1, x + 2], [x + 3, x + 4, x + 5]], "dtype": "int64"}]
    if fn in ("fm", "gm"):
        return ["ok", {"__partition__": {"a": [x, "pa"], "b": "own", "c": [x]}}]
    if fn in ("fd", "gd"):
        return ["ok", {"k": [x, "hello"], "n": {"deep": [x, 2.5, None, True]}, "s": "text" * 40}]
    raise KeyError(fn)


def expect_op(op):
    kind, fn, x = op
    if kind == "batch":
        outs = [expect(fn, v) for v in x]
        return ["ok", [o[1] for o in outs]]
    if kind == "forget":
        return ["ok", None]
    return expect(fn, x)


# scenario: (pre-script run fault-free in an earlier lifetime, target call, twin call)
SCENARIOS = {
    "S1-first": ([], ("f", 1), ("g", 1)),
    "S2-dedup": ([("call", "g", 1)], ("f", 1), ("g", 1)),
    "S4-partition": ([], ("fp", 1), ("gp", 1)),
    "S4b-partition-dedup": ([("call", "gp", 1)], ("fp", 1), ("gp", 1)),
    "S5-exception": ([], ("fe", 1), ("ge", 1)),
    "S6-null": ([], ("fz", 1), ("gz", 1)),
    "S7-override": ([("call", "fk", 1)], ("fk", 2), ("gk", 2)),
    # the same bytes written again under the same override key by another call: the earlier memento must keep reading them
    "S7b-override-same-bytes": ([("call", "fkc", 1)], ("gkc", 1), ("fkc", 1)),
    "S8-after-forget": ([("call", "f", 1), ("forget", "f", 1)], ("f", 1), ("g", 1)),
    # nested memoizations inside one call, batches, other serialization strategies, merged partitions
    "S9-nested": ([], ("par", 1), ("par2", 1)),
    "S10-batch": ([], ("f", [1, 2, 3], "batch"), ("g", [1, 2, 3], "batch")),
    "S10b-batch-partly-memoized": ([("call", "f", 2)], ("f", [1, 2, 3], "batch"), ("g", [1, 2, 3], "batch")),
    "S11-frame": ([], ("ff", 1), ("gf", 1)),
    "S11b-ndarray": ([], ("fa", 1), ("ga", 1)),
    "S11c-dict": ([], ("fd", 1), ("gd", 1)),
    "S12-merged-partition": ([], ("fm", 1), ("gm", 1)),
    "S12b-merged-partition-parent-stored": ([("call", "fp", 1)], ("fm", 1), ("gm", 1)),
}


TWIN_FIRST = ("S2-dedup", "S4b-partition-dedup", "S7b-override-same-bytes")


def _op(t):
    """(fn, x) or (fn, xs, 'batch') -> op tuple."""
    return ("batch", t[0], t[1]) if len(t) == 3 else ("call", t[0], t[1])


def normalize(res):
    from twosigma.memento.partition import Partition
    if isinstance(res, Partition):
        return {"__partition__": {k: normalize(res.get(k)) for k in sorted(res.list_keys())}}
    import numpy as np
    import pandas as pd
    if isinstance(res, pd.DataFrame):
        return {"__frame__": {c: res[c].tolist() for c in res.columns}, "index": res.index.tolist(),
                "dtypes": ["object" if str(t) == "str" else str(t) for t in res.dtypes]}
    if isinstance(res, np.ndarray):
        return {"__nd__": res.tolist(), "dtype": str(res.dtype)}
    if isinstance(res, tuple):
        return [normalize(v) for v in res]
    if isinstance(res, list):
        return [normalize(v) for v in res]
    if isinstance(res, dict):
        return {k: normalize(v) for k, v in res.items()}
    return res


def path_class(kind, rel):
    p = rel.split(":", 1)[1]
    base = os.path.basename(p)
    if kind == "mkdir" or kind == "rmdir":
        where = "versions" if "/.versions" in p else "plain"
        return "dir-" + ("c" if p.startswith("/c") else "m" if p.startswith("/m") else "ko" if p.startswith("/ko") else "root") + "-" + where
    area = "content" if p.startswith("/c/") or p.startswith("/c") else "memento" if p.startswith("/m/") else "override"
    if base.endswith(".link") or ".link." in base:
        return area + "-link"
    if "/.versions/" in p:
        return area + "-object"
    return area + "-other"


def _run_script(mod, side, script, emit, tag):
    for op in script:
        kind, fn, x = op
        side.take()
        try:
            if kind == "call":
                res = ["ok", normalize(getattr(mod, fn)(x))]
            elif kind == "batch":
                res = ["ok", [normalize(r) for r in getattr(mod, fn).call_batch([{"x": v} for v in x])]]
            else:
                getattr(mod, fn).forget(x)
                res = ["ok", None]
        except BaseException as e:  # noqa
            res = ["exc", type(e).__name__, str(e).split(". Original stack trace")[0][:200]]
        runs = ["%s:%s" % (t[0], t[1]) for t in side.take()]
        emit({"tag": tag, "op": list(op), "res": res, "runs": runs})


def _lifetime(root, cfg, idseed, script, plan, tag, scan=False, arm_at=0):
    """One process lifetime over the store at `root`."""
    def body(emit):
        world.install_seams(idseed)
        side = world.SideChannel()
        storage = world.make_storage("filesystem", root, cache_mb=5 if cfg["cache"] else None, sep_meta=cfg["sep_meta"])
        world.make_env(root, storage)
        mod = world.load_module("vprog", PROGRAM)
        pre, post = script[:arm_at], script[arm_at:]
        _run_script(mod, side, pre, emit, tag)
        simfs.arm(world.store_roots(root, cfg["sep_meta"]), plan=plan, sink=emit)
        _run_script(mod, side, post, emit, tag)
        simfs.disarm()
        emit({"tag": tag, "events": [list(e) for e in simfs.S.log], "fired": [list(x) for x in simfs.S.fired]})
        if scan:
            emit({"tag": tag, "scan": _scan(storage)})
    return core.lifetime(body)


def _scan(storage):
    """C07-style integrity of everything a memento refers to."""
    bad = []
    n = 0
    try:
        mems = [mem for fref in storage.list_functions() for mem in storage.list_mementos(fref)]
    except Exception as e:  # noqa  (listings on a damaged store are outside what C08 states: noted, not judged)
        return {"mementos": 0, "bad": [], "listing_raised": type(e).__name__}
    for mem in mems:
        if True:
            ck = mem.content_key
            if ck is None:
                continue
            n += 1
            try:
                with storage._data_source.input_versioned(ck) as f:
                    data = f.read()
            except Exception as e:  # noqa
                bad.append(["unreadable", ck.key, type(e).__name__])
                continue
            if ck.key.startswith("c/") and hashlib.sha256(data).hexdigest() != ck.key[2:]:
                bad.append(["hash-mismatch", ck.key])
    return {"mementos": n, "bad": bad}


VARIANTS_ANY = [("crash-before", {}), ("error-before", {"errno": "ENOSPC"}), ("error-before", {"errno": "EACCES"}),
                ("error-before", {"errno": "EIO"})]
VARIANTS_OPEN = [("crash-after-open", {}), ("torn", {"cut": "one"}), ("torn", {"cut": "half"}), ("torn", {"cut": "allbut1"}),
                 ("short-error", {"cut": "half", "errno": "ENOSPC"}), ("short-error", {"cut": "zero", "errno": "EFBIG"}),
                 ("short-error", {"cut": "allbut1", "errno": "ENOSPC"}), ("error-first-write", {"errno": "ENOSPC"}),
                 # the written data is lost (half of it arrives) when the file is CLOSED: reported there, or the process dies there
                 ("error-at-close", {"errno": "ENOSPC"}), ("crash-at-close", {})]


def baseline_events(scn, cfg):
    root = core.new_scratch("c08b")
    try:
        pre, target, twin = SCENARIOS[scn]
        if pre:
            _lifetime(root, cfg, 1, pre, None, "pre")
        ev, _ = _lifetime(root, cfg, 2, [_op(target)], None, "base")
        return [e for e in ev if "events" in e][0]["events"]
    finally:
        shutil.rmtree(root, ignore_errors=True)


def cases(tier, seed):
    world.import_memento()
    out = []
    configs = [{"cache": c, "sep_meta": s} for c in (False, True) for s in (False, True)]
    base = {}
    for scn in sorted(SCENARIOS):
        for cfg in configs:
            evs = baseline_events(scn, cfg)
            base[(scn, cfg["cache"], cfg["sep_meta"])] = evs
            for (k, kind, rel) in evs:
                vs = VARIANTS_ANY + (VARIANTS_OPEN if kind == "open-w" else [])
                for v, extra in vs:
                    f = dict(variant=v, k=k, life=0, **extra)
                    out.append({"scenario": scn, "cfg": cfg, "faults": [f], "kind": kind,
                                "pclass": path_class(kind, rel), "idseed": 100 + len(out)})
                    if scn in TWIN_FIRST:
                        # the other function, whose stored result shares an object with the faulted write, is asked first
                        # afterwards (before a later successful write of the faulted call could repair anything)
                        out.append({"scenario": scn, "cfg": cfg, "faults": [dict(f)], "kind": kind, "after": "twin-first",
                                    "pclass": path_class(kind, rel), "idseed": 100 + len(out)})
    # the store lives under a directory with a non-ASCII name and a link file (it holds an absolute path) is torn inside a
    # multi-byte character
    for scn in ("S1-first", "S2-dedup", "S7-override", "S4-partition"):
        for cfg in configs:
            for (k, kind, rel) in base[(scn, cfg["cache"], cfg["sep_meta"])]:
                if kind == "open-w" and (rel.endswith(".link") or ".link" in os.path.basename(rel)):
                    for v in ("torn", "short-error"):
                        out.append({"scenario": scn, "cfg": dict(cfg, unicode=True), "faults": [dict(variant=v, k=k, life=0, cut="midchar", errno="ENOSPC")],
                                    "kind": kind, "pclass": path_class(kind, rel), "idseed": 100 + len(out)})
    # a fault that lasts: every mutating event is refused while the first K calls of a lifetime run (disk full / no
    # permission for a while); when it is over, the SAME process must memoize again
    for cfg in configs:
        for errno in ("ENOSPC", "EACCES"):
            for K in (1, 2, 3, 4, 5, 6, 8, 12):
                out.append({"scenario": "W-window", "cfg": cfg, "window": K, "errno": errno, "faults": [], "kind": "window",
                            "pclass": "window", "idseed": 100 + len(out)})
    if tier == "thorough":
        rng = core.stream(seed, "c08-sequences")
        keys = sorted(base)
        for i in range(6000):
            scn, c, s = keys[rng.randrange(len(keys))]
            evs = base[(scn, c, s)]
            nf = rng.choice([2, 2, 3])
            faults = []
            for j in range(nf):
                k, kind, rel = evs[rng.randrange(len(evs))]
                vs = VARIANTS_ANY + (VARIANTS_OPEN if kind == "open-w" else [])
                v, extra = vs[rng.randrange(len(vs))]
                faults.append(dict(variant=v, k=k, life=j, **extra))
            out.append({"scenario": scn, "cfg": {"cache": c, "sep_meta": s}, "faults": faults, "kind": "seq",
                        "pclass": "seq", "idseed": 100000 + i})
    return out


def _execute_window(case):
    """The store refuses every mutation while the first N calls run (disk full / no permission for a while); then the fault
    is gone and the SAME process must memoize again: of two equal calls the second is served."""
    cfg = case["cfg"]
    N = case["window"]
    root = core.new_scratch("c08w")
    viol, stats, log = [], {"window_cases": 1}, []
    during = [("call", "f", i) for i in range(1, N + 1)] + ([("call", "fp", 1)] if N % 2 == 0 else [])
    after = [("call", "f", 88), ("call", "f", 88), ("call", "f", 1), ("call", "f", 1), ("call", "g", 2), ("call", "g", 2),
             ("call", "fp", 1), ("call", "fp", 1), ("call", "f", 88)]

    def body(emit):
        world.install_seams(case["idseed"])
        side = world.SideChannel()
        storage = world.make_storage("filesystem", root, cache_mb=5 if cfg["cache"] else None, sep_meta=cfg["sep_meta"])
        world.make_env(root, storage)
        mod = world.load_module("vprog", PROGRAM)
        plan = {k: {"variant": "error-before", "k": k, "life": 0, "errno": case["errno"]} for k in range(1, 4000)}
        simfs.arm(world.store_roots(root, cfg["sep_meta"]), plan=plan, sink=None)
        _run_script(mod, side, during, emit, "during")
        nf = len(simfs.S.fired)
        simfs.set_plan({})
        simfs.S.armed_open = None
        _run_script(mod, side, after, emit, "after")
        simfs.disarm()
        emit({"tag": "window", "events": len(simfs.S.log), "fired": nf})
    steps = 0
    try:
        ev, _ = core.lifetime(body)
        log.append(ev)
        ops = [e for e in ev if "op" in e]
        info = [e for e in ev if e.get("tag") == "window"][-1]
        steps = info["events"]
        stats["fired:error-before"] = info["fired"]
        for e in ops:
            if e["res"] != expect_op(e["op"]):
                viol.append(("wrong-or-raised-in-faulted-lifetime", e))
        seen_once = set()
        for e in ops[len(during):]:
            key = (e["op"][1], e["op"][2])
            if key in seen_once and e["runs"]:
                viol.append(("recompute-forever", {"in": "same-process-after-the-fault", "op": e["op"], "runs": e["runs"], "calls_under_fault": N}))
                break
            seen_once.add(key)
        # and a fresh process finds everything memoized
        ev2, _ = _lifetime(root, cfg, case["idseed"] + 50, [("call", "f", 88), ("call", "f", 1), ("call", "g", 2), ("call", "fp", 1)], None, "fresh", scan=True)
        log.append(ev2)
        for e in ev2:
            if "op" in e:
                if e["res"] != expect_op(e["op"]):
                    viol.append(("wrong-or-raised-after-fault", {"op": e["op"], "res": e["res"]}))
                elif e["runs"] and not viol:
                    viol.append(("recompute-forever", {"in": "fresh-process", "op": e["op"], "runs": e["runs"]}))
            if "scan" in e and e["scan"]["bad"]:
                viol.append(("store-integrity", e["scan"]["bad"][:3]))
        if not viol:
            stats["recovered_after_fault"] = 1
    finally:
        shutil.rmtree(root, ignore_errors=True)
    feats = {"scenario": "W", "event": "window", "path": "any", "variant": "error-before", "errno": case["errno"],
             "length": "short" if N <= 2 else "long"}
    out, seen = [], set()
    for clause, detail in viol:
        if clause not in seen:
            seen.add(clause)
            out.append(core.violation(clause, feats, detail))
    dg = core.digest_of(log)
    return {"violations": out, "digest": dg, "nontrivial": bool(stats.get("fired:error-before")), "stats": stats, "steps": steps,
            "key": core.digest_of(["W", cfg, N, case["errno"], dg]), "sample": {"scenario": "W-window", "cfg": cfg, "calls_under_fault": N}}


def execute(case):
    if case.get("kind") == "window":
        return _execute_window(case)
    scn = case["scenario"]
    cfg = case["cfg"]
    pre, target, twin = SCENARIOS[scn]
    root = scratch = core.new_scratch("c08")
    if cfg.get("unicode"):
        root = root + "/st\u00f4re-\u00fc"
        os.makedirs(root)
    viol = []
    stats = {}
    log = []
    fired_any = False
    steps = 0
    try:
        if pre:
            ev, _ = _lifetime(root, cfg, case["idseed"], pre, None, "pre")
            log.append(ev)
        tcall = _op(target)
        wcall = _op(twin)
        # faulted lifetimes: one per distinct 'life' index
        lives = sorted(set(f["life"] for f in case["faults"]))
        fault_desc = None
        for li in lives:
            plan = {f["k"]: f for f in case["faults"] if f["life"] == li}
            script = [tcall, tcall, wcall, tcall]
            ev, code = _lifetime(root, cfg, case["idseed"] + 1 + li, script, plan, "fault%d" % li)
            log.append(ev)
            fired = []
            for e in ev:
                if "fired" in e:
                    fired = e["fired"]   # last report wins (crash reports come first and alone)
                if "events" in e:
                    steps += len(e["events"])
            for (n, kind, v) in fired:
                fired_any = True
                stats["fired:" + v.split(":")[0]] = stats.get("fired:" + v.split(":")[0], 0) + 1
                if fault_desc is None:
                    evs = [e for e in ev if "events" in e]
                    rel = next((x[2] for x in evs[-1]["events"] if x[0] == n), "?") if evs else "?"
                    fault_desc = {"event": kind, "path": path_class(kind, rel) if rel != "?" else "?", "variant": v.split(":")[0]}
            # (a) in the faulted lifetime, calls that completed must be correct
            for e in ev:
                if "op" in e and e["res"] != expect_op(e["op"]):
                    viol.append(("wrong-or-raised-in-faulted-lifetime", e))
        feats = {"scenario": scn.split("-")[0]}
        if case.get("after"):
            feats["after"] = case["after"]
        feats.update(fault_desc or {"event": case["kind"], "path": case["pclass"], "variant": case["faults"][0]["variant"]})
        if cfg.get("unicode"):
            feats["store_path"] = "non-ascii"
            stats["non_ascii_store_path"] = 1
        if len(case["faults"]) > 1:
            feats["nfaults"] = len(case["faults"])
        # (b)(c) fault-free lifetimes
        runs_by_life = []
        script = [tcall, tcall, tcall, wcall, wcall, wcall, ("call", "u", 2)]
        if case.get("after") == "twin-first":
            script = [wcall, wcall, wcall, tcall, tcall, tcall, ("call", "u", 2)]
            stats["twin_asked_first"] = 1
        for li in range(2):
            ev, code = _lifetime(root, cfg, case["idseed"] + 50 + li, script, None, "after%d" % li, scan=(li == 1))
            log.append(ev)
            counts = {}
            for e in ev:
                if "op" in e:
                    if e["res"] != expect_op(e["op"]):
                        viol.append(("wrong-or-raised-after-fault", {"life": li, "op": e["op"], "res": e["res"]}))
                    for r in e["runs"]:
                        counts[r] = counts.get(r, 0) + 1
                if "scan" in e and e["scan"]["bad"]:
                    viol.append(("store-integrity", e["scan"]["bad"][:3]))
                if "scan" in e and e["scan"].get("listing_raised"):
                    stats["note:listing_raised_on_damaged_store"] = 1
                if "events" in e:
                    steps += len(e["events"])
            runs_by_life.append(counts)
        for fn, c in sorted(runs_by_life[0].items()):
            if c > 1:
                viol.append(("recompute-forever", {"life": 0, "fn": fn, "runs": c}))
        for fn, c in sorted(runs_by_life[1].items()):
            if c > 0:
                viol.append(("recompute-forever", {"life": 1, "fn": fn, "runs": c}))
        if fired_any and not runs_by_life[1]:
            stats["recovered_after_fault"] = 1
        if pre and scn in ("S2-dedup", "S4b-partition-dedup"):
            stats["dedup_path_taken"] = 1
    finally:
        shutil.rmtree(scratch, ignore_errors=True)
    # one violation per clause, classified by the fault that fired
    out = []
    seen = set()
    for clause, detail in viol:
        if clause not in seen:
            seen.add(clause)
            out.append(core.violation(clause, feats, detail))
    dg = core.digest_of(log)
    return {"violations": out, "digest": dg, "nontrivial": fired_any, "stats": stats, "steps": steps,
            "key": core.digest_of([scn, cfg, feats, dg]),
            "sample": {"scenario": scn, "cfg": cfg, "faults": case["faults"], "fired": feats}}


def shrink(case, same, budget_s):
    # drop faults one at a time
    cur = case
    changed = True
    while changed and len(cur["faults"]) > 1:
        changed = False
        for i in range(len(cur["faults"])):
            c = dict(cur)
            c["faults"] = cur["faults"][:i] + cur["faults"][i + 1:]
            if same(c):
                cur, changed = c, True
                break
    return cur
