"""C15 — batch evaluation equals element-wise evaluation, in order (engine `calltree`, twin worlds)."""
import shutil

from sim import core, simfs, values, world
from . import calltree

PROP = "C15"
LEVEL = "exploration"
BUDGET = {"quick": 300, "thorough": 1700}
NCASES = {"quick": 3000, "thorough": 40000}
RULE = ("twin worlds from the same pre-state: world A evaluates call_batch(kwargs_list, raise_first_exception) or "
        "map_over_range over a generated call tree's root (nested, failing and repeated sub-calls beneath each element), "
        "world B evaluates the same elements one by one in order, catching exceptions; batches of length 0-8 with duplicates, "
        "failing elements, a drawn subset memoized beforehand, partial-application prefix for two-parameter roots, cache "
        "on/off, optional restart before the batch; roots with a defaulted third parameter get sibling partials derived from the "
        "keyword prefix before the batch and an element-wise world that may call the root directly with all arguments; non-trivial = batch length >= 2; distinct = event-log digest")
ASSUMPTIONS = ["exceptions are compared by class and original message", "stores are compared as sets of (qualified name, argument hash, result type, value, invocation list)"]
COMPONENTS = {"real": ["call_batch / map_over_range, LocalRunnerBackend.batch_run, runner, storage backends", "fork lifetimes"],
              "stub": ["generated program", "uuid4, clock"]}
REACH = ["through_ignore_result_clone", "with_sibling_partials_derived_from_the_prefix", "element_wise_world_calls_root_directly", "under_context_arguments", "with_read_fault", "with_transient_failures", "one_shot_iterable_range", "with_warm_elements", "batches", "map_over_range", "raise_first", "with_failing_element", "with_duplicates", "with_prememoized", "empty_batches",
         "partial_prefix", "restart_before_batch"]


def gen_case(seed):
    rng = core.stream(seed, "gen")
    prog = calltree.gen_tree(rng, n=rng.randrange(1, 6), feats={"p_fail": 0.3, "w_batch": 0.7, "w_map": 0.3})
    if rng.random() < 0.6:
        prog["nodes"][0]["fail_on"] = sorted(set(rng.sample([0, 1, 2, 3], rng.randrange(1, 3))))
    if rng.random() < 0.35:
        prog["nodes"][0]["transient"] = sorted(set(rng.sample([0, 1, 2, 3], rng.randrange(1, 3))))
    n = rng.choice([0, 1, 2, 3, 4, 5, 8])
    xs = [rng.randrange(4) for _ in range(n)]
    via = rng.choice(["call_batch", "call_batch", "map_over_range"])
    if via == "map_over_range" and not xs:
        xs = [1]
    pre = sorted(set(x for x in xs if rng.random() < 0.4) | (set([rng.randrange(4)]) if rng.random() < 0.3 else set()))
    warm = sorted(set(x for x in xs if rng.random() < 0.35))
    # how the range of map_over_range is presented: the documentation promises any Iterable
    shape = rng.choice(["list", "list", "tuple", "generator", "iterator", "map", "range"]) if via == "map_over_range" else "list"
    if shape == "range":
        lo = rng.randrange(3)
        xs = list(range(lo, lo + max(1, min(len(xs), 4 - lo))))
        pre = [x for x in pre if x in xs] or pre
        warm = [x for x in warm if x in xs]
    rfx = None
    if pre and xs and rng.random() < 0.25:
        cand = [x for x in xs if x in pre]
        if cand:
            rfx = cand[rng.randrange(len(cand))]     # the stored memento of this element cannot be read once (reported I/O error)
    ctx = rng.choice([None, None, None, {"k": 1}, {"k": 2, "j": "a"}])      # the batch is issued through a clone with context arguments
    sweep, sib_use, b_direct = [], False, False
    if prog["nodes"][0]["params"] == "x,y" and rng.random() < 0.6:
        # the root has a defaulted third parameter; before the batch, further partials are derived from the keyword prefix
        # the batch goes through (a parameter sweep: prefix.partial(z=v)), and possibly used; the element-wise world may call
        # the root directly with all arguments instead of through the prefix - the same calls by identity
        prog["nodes"][0]["zdef"] = True
        sweep = [rng.randrange(1, 5) for _ in range(rng.randrange(0, 4))]
        sib_use = rng.random() < 0.5
        b_direct = rng.random() < 0.6
    ign = rng.random() < 0.2      # the batch (and the single calls) go through an ignore_result clone
    if ign and rng.random() < 0.6:
        pre = sorted(set(xs))     # a warm-up batch over calls that are all memoized already (some of them as failures)
    return {"seed": seed, "sweep": sweep, "sib_use": sib_use, "b_direct": b_direct, "ign": ign, "prog": prog, "xs": xs, "via": via, "shape": shape, "read_fault_x": rfx, "ctx": ctx,
            "pre_via": rng.choice(["same", "same", "plain"]), "raise_first": rng.random() < 0.5, "pre": pre, "warm": warm,
            "cache": rng.random() < 0.6, "restart": rng.random() < 0.5, "backend": rng.choice(["fs", "fs", "memory"])}


def cases(tier, seed):
    return [gen_case(core.run_seed(seed, PROP, i)) for i in range(NCASES[tier])]


def _summ(r):
    import builtins
    if isinstance(r, BaseException):
        return ["exc", type(r).__name__, builtins.__vmsg__(r)]
    return ["ok", calltree.jsonable(r)]


def _store_dump(storage):
    out = []
    for fref in storage.list_functions():
        for mem in storage.list_mementos(fref):
            im = mem.invocation_metadata
            try:
                v = storage.read_result(mem)
                vs = _summ(v.to_exception() if hasattr(v, "to_exception") else v) if not isinstance(v, list) else ["ok", calltree.jsonable(v)]
            except Exception as e:  # noqa
                vs = ["unreadable", type(e).__name__]
            out.append([im.fn_reference_with_args.fn_reference.qualified_name, im.fn_reference_with_args.arg_hash, im.result_type.name, vs,
                        [[i.fn_reference.qualified_name, i.arg_hash] for i in im.invocations]])
    return sorted(out, key=lambda z: (z[0], z[1]))


def run_world(root, case, world_name):
    prog = case["prog"]
    two = prog["nodes"][0]["params"] == "x,y"

    def mk(first):
        def body(emit):
            world.install_seams(case["seed"] + (0 if first else 1))
            side = world.SideChannel()
            kind = "memory" if case["backend"] == "memory" else "filesystem"
            storage = world.make_storage(kind, root, cache_mb=1 if case["cache"] and kind != "memory" else None)
            world.make_env(root, storage)
            calltree.install_helpers()
            side.table["respath"] = root + "/res"
            mod = world.load_module("vtree", calltree.render(prog))
            f = getattr(mod, prog["nodes"][0]["name"])
            direct = two and case.get("b_direct") and world_name == "B"
            kw = {"y": 7} if direct else {}
            if two and not direct:
                f = f.partial(y=7)
            f_plain = f
            if case.get("ctx"):
                f = f.with_context_args(dict(case["ctx"]))
            do_pre = first
            do_batch = (not first) or not (case["restart"] and case["backend"] != "memory")
            if do_pre:
                for x in case["pre"]:
                    try:
                        (f_plain if case.get("pre_via") == "plain" else f)(x=x, **kw)
                    except Exception:  # noqa
                        pass
                side.take()
            if do_batch:
                sibs = [(v, None if direct else f.partial(z=v)) for v in case.get("sweep") or []]
                if case.get("sib_use"):
                    for v, sib in sibs:
                        try:
                            sib(x=0) if sib is not None else f(x=0, z=v, **kw)
                        except Exception:  # noqa
                            pass
                for x in case.get("warm", []):     # single calls just before: these elements are memory-cache hits in the batch
                    try:
                        f(x=x, **kw)
                    except Exception:  # noqa
                        pass
                side.take()
                rfx = case.get("read_fault_x")
                if rfx is not None and kind != "memory":
                    ah = f.fn_reference().with_args(x=rfx, **kw).arg_hash
                    simfs.arm(world.store_roots(root, False))
                    simfs.set_read_plan(rules=[{"match": ah + ".memento", "nth": 1}])
                f_all = f
                if case.get("ign"):
                    f = f.ignore_result()
                if world_name == "A":
                    try:
                        if case["via"] == "map_over_range":
                            xs_ = list(case["xs"])
                            shape = case.get("shape", "list")
                            rng_ = {"list": lambda: xs_, "tuple": lambda: tuple(xs_), "generator": lambda: (v for v in xs_),
                                    "iterator": lambda: iter(xs_), "map": lambda: map(int, xs_),
                                    "range": lambda: range(xs_[0], xs_[-1] + 1)}[shape]()
                            r = f.map_over_range(x=rng_)
                            res = {"ok": sorted([k, _summ(v)] for k, v in r.items())}
                        else:
                            r = f.call_batch([{"x": x} for x in case["xs"]], raise_first_exception=case["raise_first"])
                            res = {"ok": [_summ(v) for v in r]}
                    except Exception as e:  # noqa
                        res = {"raised": _summ(e)}
                else:
                    slots = []
                    for x in case["xs"]:
                        try:
                            slots.append(_summ(f(x=x, **kw)))
                        except Exception as e:  # noqa
                            slots.append(_summ(e))
                    res = {"slots": slots}
                fired = 0
                if rfx is not None and kind != "memory":
                    fired = len(simfs.S.read_fired)
                    simfs.disarm()
                runs = [[t[0], t[1]] for t in side.take()]
                store = _store_dump(storage)
                # an unrelated, ordinary top-level batch afterwards: whatever the evaluation left behind must not affect it
                try:
                    pv = mod.vprobe.call_batch([{"x": 41}, {"x": 42}], raise_first_exception=False)
                    pm = mod.vprobe.memento(41)
                    probe = ["ok", [_summ(v) for v in pv], None if pm is None else (pm.invocation_metadata.fn_reference_with_args.context_args or {})]
                except Exception as e:  # noqa
                    probe = ["exc", type(e).__name__, str(e)[:160]]
                side.take()
                emit({"res": res, "runs": runs, "store": store, "read_faults_fired": fired, "probe": probe})
        return body
    out = None
    if case["restart"] and case["backend"] != "memory":
        core.lifetime(mk(True))
        ev, _ = core.lifetime(mk(False))
    else:
        ev, _ = core.lifetime(mk(True))
    return ev[-1]


def execute(case):
    viol = []
    stats = {"batches": 1}
    ra = core.new_scratch("c15a")
    rb = core.new_scratch("c15b")
    try:
        A = run_world(ra, case, "A")
        B = run_world(rb, case, "B")
    finally:
        shutil.rmtree(ra, ignore_errors=True)
        shutil.rmtree(rb, ignore_errors=True)
    for wn, W_ in (("batch", A), ("single", B)):
        if W_.get("probe") is not None and calltree.jsonable(W_["probe"]) != ["ok", [["ok", ["probe", 41]], ["ok", ["probe", 42]]], {}]:
            viol.append(core.violation("later-unrelated-call-affected", {"via": case["via"], "world": wn}, {"probe": W_["probe"]}))
            break
    xs = case["xs"]
    slots = B["res"]["slots"]
    failing = [s for s in slots if s[0] == "exc"]
    if case["via"] == "map_over_range":
        stats["map_over_range"] = 1
        if case.get("shape") in ("generator", "iterator", "map"):
            stats["one_shot_iterable_range"] = 1
    if failing:
        stats["with_failing_element"] = 1
    if len(set(xs)) < len(xs):
        stats["with_duplicates"] = 1
    if set(case["pre"]) & set(xs):
        stats["with_prememoized"] = 1
    if not xs:
        stats["empty_batches"] = 1
    if case.get("warm"):
        stats["with_warm_elements"] = 1
    if case["prog"]["nodes"][0]["params"] == "x,y":
        stats["partial_prefix"] = 1
    if case["restart"] and case["backend"] != "memory":
        stats["restart_before_batch"] = 1
    if case.get("ign"):
        stats["through_ignore_result_clone"] = 1
    if case.get("sweep"):
        stats["with_sibling_partials_derived_from_the_prefix"] = 1
    if case.get("b_direct"):
        stats["element_wise_world_calls_root_directly"] = 1
    feats = {"via": case["via"]}
    raises = case["via"] == "map_over_range" or case["raise_first"]
    if raises:
        stats["raise_first"] = 1
    if raises and failing:
        if "raised" not in A["res"]:
            viol.append(core.violation("first-failure-not-raised", feats, {"A": A["res"], "B": slots}))
        elif A["res"]["raised"] != failing[0]:
            viol.append(core.violation("raised-other-than-first-failure", feats, {"A": A["res"], "first_failing_slot": failing[0]}))
    else:
        if "raised" in A["res"]:
            viol.append(core.violation("batch-raised", feats, {"A": A["res"], "B": slots}))
        elif case["via"] == "map_over_range":
            want = sorted([x, s] for x, s in dict((x, s) for x, s in zip(xs, slots)).items())
            if A["res"]["ok"] != want:
                viol.append(core.violation("map-result-differs", feats, {"A": A["res"]["ok"], "B": want}))
        elif A["res"]["ok"] != slots:
            pos = next(i for i, (a, b) in enumerate(zip(A["res"]["ok"] + [None] * 9, slots + [None] * 9)) if a != b)
            viol.append(core.violation("slot-differs", dict(feats, slot_kind="failing" if pos < len(slots) and slots[pos][0] == "exc" else "value"),
                                       {"position": pos, "A": A["res"]["ok"], "B": slots}))
    if not viol:
        rootname = case["prog"]["nodes"][0]["name"]
        per_x = {}
        for name, x in A["runs"]:
            if name == rootname:
                per_x[x] = per_x.get(x, 0) + 1
        per_x_b = {}
        for name, x in B["runs"]:
            if name == rootname:
                per_x_b[x] = per_x_b.get(x, 0) + 1
        transient = set(case["prog"]["nodes"][0].get("transient") or [])
        if transient & set(xs):
            stats["with_transient_failures"] = 1
        if case.get("ctx"):
            stats["under_context_arguments"] = 1
            if case.get("pre_via") == "plain":
                transient = transient | {"context"}     # what was memoized through the plain function is another identity: single calls are the reference
        if A.get("read_faults_fired") or B.get("read_faults_fired"):
            stats["with_read_fault"] = 1
            transient = transient | {"read-fault"}      # a stored element that cannot be read is evaluated again: single calls are the reference
        if transient:
            # with outcomes that are not to be memoized (also when they propagate from a nested call) the element-wise
            # world is the reference: every element is evaluated exactly as often as single calls evaluate it
            for x in sorted(set(per_x) | set(per_x_b)):
                if per_x.get(x, 0) != per_x_b.get(x, 0):
                    viol.append(core.violation("non-memoized-element-run-count-differs", feats,
                                               {"x": x, "batch": per_x.get(x, 0), "single": per_x_b.get(x, 0)}))
                    break
        for x, c in sorted(per_x.items()):
            if transient:
                break
            if c > 1:
                viol.append(core.violation("element-body-ran-more-than-once", feats, {"x": x, "runs": c}))
                break
            if x in case["pre"] or x in case.get("warm", []):
                viol.append(core.violation("prememoized-element-re-executed", feats, {"x": x}))
                break
    if not viol and A["store"] != B["store"]:
        a = {(z[0], z[1]): z for z in A["store"]}
        b = {(z[0], z[1]): z for z in B["store"]}
        only_a = sorted(set(a) - set(b))
        only_b = sorted(set(b) - set(a))
        diff = [k for k in a if k in b and a[k] != b[k]]
        viol.append(core.violation("final-store-differs", dict(feats, kind="extra-in-batch" if only_a else "missing-in-batch" if only_b else "entry-differs"),
                                   {"only_batch": only_a[:3], "only_single": only_b[:3], "differs": [[a[k], b[k]] for k in diff[:2]]}))
    log = [A["res"], A["runs"], B["res"], len(A["store"])]
    dg = core.digest_of(log)
    return {"violations": viol[:1], "digest": dg, "nontrivial": len(xs) >= 2, "stats": stats, "steps": len(A["runs"]) + len(B["runs"]),
            "key": dg, "sample": {k: case[k] for k in ("xs", "via", "raise_first", "pre", "cache", "restart", "backend")}}
