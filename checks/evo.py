"""Engine `evo`: program-evolution simulator (C01, C14; C13 and C03 build on the same program model).

A generated package is edited between or inside process lifetimes that share one store; every
call of an auto-versioned memento function is compared with a sibling lifetime that runs the
same texts, delivered the same way, with memento_function replaced by a pass-through decorator.
DESIGN.md 3.1."""
import importlib
import os
import shutil
import sys

from sim import core, progen, world

VIAS = ["plain", "plain", "plain", "call", "ignore_result", "force_local", "partial", "context"]


# ----------------------------------------------------------------------------- generation

DISCIPLINE = [True]     # False: edits are applied without bumping explicit versions (deps-only histories of C14)


def gen_history(seed, max_edits=8, features=None, inproc_only=False, deps_ops=True, discipline=True):
    rng = core.stream(seed, "gen")
    F = dict(features or {})
    # swarm: switch program features on/off per run
    F.setdefault("p_two_packages", 0.3)
    for k, p in (("p_hidden", 0.5), ("p_alias", 0.5), ("p_wrapped", 0.5), ("p_recur", 0.5), ("p_explicit", 0.6), ("p_setc", 0.7),
                 ("p_posdef", 0.8), ("p_kwdef", 0.7), ("p_salt", 0.4)):
        if k not in F and rng.random() > p:
            F[k] = 0.0
    prog = progen.gen_program(rng, F)
    steps = []
    counter = 1
    cur = prog

    def roots(p):
        return [n["id"] for n in p["nodes"] if n["kind"] == "memento" and n["explicit"] is None]

    DISCIPLINE[0] = discipline

    def add_calls(p, n):
        if not discipline:
            return      # a stale explicitly versioned function would make every value / refusal expectation meaningless
        rs = roots(p)
        for _ in range(n):
            nid = rs[0] if rng.random() < 0.6 else rs[rng.randrange(len(rs))]
            st = {"op": "call", "node": nid, "x": rng.choice([1, 1, 2, 0]), "via": rng.choice(VIAS), "twice": rng.random() < 0.3}
            if p["nodes"][nid].get("fparams") and rng.random() < 0.5:
                st["fnargs"] = list(p["nodes"][nid]["fparams"])
            steps.append(st)
    add_calls(cur, rng.randrange(1, 4))
    def deps_step(p):
        """all functions in definition order, or (deps-only histories) a drawn subset in a drawn order: whether a report is
        refreshed must not depend on which other function was asked first"""
        if discipline or rng.random() < 0.3:
            return {"op": "deps"}
        mem = [n["id"] for n in p["nodes"] if n["kind"] == "memento"]
        expl = [i for i in mem if p["nodes"][i]["explicit"] is not None]
        rng.shuffle(mem)
        pick = mem[:rng.randrange(1, len(mem) + 1)]
        if expl and rng.random() < 0.6:
            e = expl[rng.randrange(len(expl))]
            pick = [e] + [i for i in pick if i != e][:rng.randrange(0, 2)]
        return {"op": "deps", "order": pick}
    if not discipline:
        steps.append({"op": "deps"})
    for _ in range(rng.randrange(1, max_edits + 1)):
        e = progen.gen_edit(rng, cur, counter)
        counter += 1
        if e["kind"] == "global":
            delivery = rng.choice(["restart", "inproc-def", "inproc-rebind"]) if e["how"] == "rebind" else "inproc-mutate"
        else:
            delivery = rng.choice(["restart", "restart", "inproc-def", "inproc-module"])
        if inproc_only and delivery == "restart":
            delivery = "inproc-def"
        if e["kind"] == "inith":
            if inproc_only:
                continue
            delivery = "restart"      # the package's __init__.py is rewritten and imported by the next process
        steps.append({"op": "edit", "edit": e, "delivery": delivery, "n": counter})
        cur, _ = apply_with_discipline(cur, e, counter)
        if deps_ops and rng.random() < (0.3 if discipline else 0.8):
            steps.append(deps_step(cur))
        add_calls(cur, rng.randrange(1, 4))
        if discipline and rng.random() < 0.15:
            # a mishap: some operation fails halfway and is over; the program is what it was, and every later step must
            # behave as if it had not happened
            kinds = ["boom", "badresult", "badcall"]
            decl = [(a["id"], c["to"]) for a in cur["nodes"] if a["kind"] == "memento" and not a.get("frozen")
                    for c in a["calls"] if c["form"] == "declared"]
            if decl:
                kinds += ["glitch", "glitch"]
            k = rng.choice(kinds)
            st = {"op": "mishap", "kind": k}
            if k == "glitch":
                st["node"], st["callee"] = decl[rng.randrange(len(decl))]
            elif k == "badcall":
                rs = roots(cur)
                st["node"] = rs[rng.randrange(len(rs))]
            steps.append(st)
            add_calls(cur, rng.randrange(1, 3))
        if rng.random() < 0.15:
            steps.append({"op": "restart"})
            add_calls(cur, 1)
    if deps_ops:
        steps.append({"op": "deps"})
    DISCIPLINE[0] = True
    case = {"seed": seed, "prog": prog, "steps": steps, "cache": rng.random() < 0.5}
    if not discipline:
        case["no_discipline"] = True
    return case


def apply_with_discipline(prog, e, n):
    """Apply an edit; bump explicit versions whose closure it touches. Returns (prog, touched units)."""
    p, touched = progen.apply_edit(prog, e)
    if not DISCIPLINE[0] or e["kind"] == "set_explicit":
        return p, touched
    tn = set(u[1] for u in touched if u[0] == "n")
    for u in touched:
        if u[0] == "g":
            tn |= set(progen.global_users(p, u[1]))
        if u[0] == "b":
            tn |= set(progen.builtin_users(p, u[1]))
        if u[0] == "i":
            tn |= set(progen.init_users(p))
    for eid in progen.explicit_bumps(p, tn, n):
        p["nodes"][eid]["explicit"] = "v%d" % (n + 1)
        touched.add(("n", eid))
        for a in p["nodes"]:
            for c in a["calls"]:
                if c["form"] == "alias" and c["to"] == eid:
                    touched.add(("a", eid))
                if c["form"] == "wrapped" and c["to"] == eid:
                    touched.add(("w", eid))
    return p, touched


# ----------------------------------------------------------------------------- execution inside a lifetime

def passthrough(*a, **k):
    if len(a) == 1 and callable(a[0]) and not k:
        return a[0]
    return lambda fn: fn


def modname(prog, mi):
    return "%s.%s" % (progen.pkg_of(prog, mi), prog["modules"][mi])


def import_program(prog, root):
    src = root + "/src"
    if src not in sys.path:
        sys.path.insert(0, src)
    importlib.invalidate_caches()
    for mi in range(len(prog["modules"])):
        importlib.import_module(modname(prog, mi))


def deliver(prog_before, prog_after, touched, e, delivery):
    """Apply an in-process edit to the live modules."""
    mods = {}
    def mod_of(u):
        return prog_after["globals"][u[1]]["module"] if u[0] == "g" else u[1] if u[0] == "b" else prog_after["nodes"][u[1]]["module"]
    for u in touched:
        mods.setdefault(mod_of(u), []).append(u)
    if delivery == "inproc-mutate":
        g = prog_after["globals"][e["gid"]]
        live = getattr(sys.modules[modname(prog_after, g["module"])], g["name"])
        if isinstance(live, list):
            live.append(e["n"])
        elif isinstance(live, dict):
            live["z%d" % e["n"]] = e["n"]
        else:
            setattr(sys.modules[modname(prog_after, g["module"])], g["name"], g["value"])
        touched = set(u for u in touched if u[0] != "g")
        mods = {}
        for u in touched:
            mods.setdefault(mod_of(u), []).append(u)
    if delivery == "inproc-rebind":
        g = prog_after["globals"][e["gid"]]
        import copy
        setattr(sys.modules[modname(prog_after, g["module"])], g["name"], copy.deepcopy(g["value"]))
        touched = set(u for u in touched if u[0] != "g")
        mods = {}
        for u in touched:
            mods.setdefault(mod_of(u), []).append(u)
    for mi in sorted(mods):
        name = modname(prog_after, mi)
        if delivery == "inproc-module":
            world.load_module(name, progen.render_module(prog_after, mi))
        else:
            for u in progen.cell_order(prog_after, mods[mi]):
                world.load_module(name, progen.render_unit(prog_after, u))


def do_call(prog, step, memo, side):
    from twosigma.memento.exception import UndeclaredDependencyError
    nd = prog["nodes"][step["node"]]
    fn = getattr(sys.modules[modname(prog, nd["module"])], nd["name"])
    x = step["x"]
    via = step["via"] if memo else "plain"
    kw = {}
    for j in step.get("fnargs") or []:
        if j in (nd.get("fparams") or []) and prog["nodes"][j]["kind"] == "memento":
            t = prog["nodes"][j]
            kw["p%d" % j] = getattr(sys.modules[modname(prog, t["module"])], t["name"])
    outs = []
    for _ in range(2 if step.get("twice") else 1):
        side.take()
        try:
            if via == "plain":
                r = fn(x, **kw)
            elif via == "call":
                r = fn.call(x, **kw)
            elif via == "ignore_result":
                r = ["ignored", fn.ignore_result()(x, **kw)]
            elif via == "force_local":
                r = fn.force_local()(x, **kw)
            elif via == "partial":
                r = fn.partial(x)(**kw)
            elif via == "context":
                r = fn.with_context_args({"c": 1})(x, **kw)
            else:
                raise core.HarnessError("via %r" % via)
            out = ["ok", r]
        except UndeclaredDependencyError:
            out = ["ude"]
        except Exception as e:  # noqa
            import traceback
            out = ["exc", type(e).__name__, str(e)[:200], traceback.format_exc()[-800:]]
        runs = [t[0] for t in side.take()]
        outs.append({"out": out, "runs": runs})
    return outs


def do_deps(prog, order=None):
    """C14: what the library reports for every memento function of the program (or for the given ones, in that order)."""
    rep = {}
    nodes = prog["nodes"] if order is None else [prog["nodes"][i] for i in order if i < len(prog["nodes"])]
    for nd in nodes:
        if nd["kind"] != "memento":
            continue
        fn = getattr(sys.modules[modname(prog, nd["module"])], nd["name"])
        try:
            g = fn.dependencies()
            trans = sorted(f.qualified_name_without_version for f in g.transitive_memento_fn_dependencies())
            direct = sorted(f.qualified_name_without_version for f in g.direct_memento_fn_dependencies())
            df = g.df()
            edges = sorted([r["src"], r["target"]] for _, r in df.iterrows()) if df is not None else []
            rep[nd["name"]] = {"trans": trans, "direct": direct, "edges": edges}
        except Exception as e:  # noqa
            import traceback
            rep[nd["name"]] = {"exc": [type(e).__name__, str(e)[:200], traceback.format_exc()[-600:]]}
    return rep


MISHAP_SRC = '''
import twosigma.memento as m
from twosigma.memento.exception import NonMemoizedException

@m.memento_function
def vboom(x):
    raise NonMemoizedException("boom %d" % x)

@m.memento_function
def vbadresult(x):
    return {"not", "encodable", x}
'''


def do_mishap(prog, st):
    """An operation that fails halfway (its exception reaches the caller) and leaves the program as it was."""
    k = st["kind"]
    try:
        if k in ("boom", "badresult"):
            mod = sys.modules.get("vmishap") or world.load_module("vmishap", MISHAP_SRC)
            (mod.vboom if k == "boom" else mod.vbadresult)(1)
        elif k == "badcall":
            nd = prog["nodes"][st["node"]]
            getattr(sys.modules[modname(prog, nd["module"])], nd["name"])({"an", "argument", "that cannot be hashed"})
        elif k == "glitch":
            a, b = prog["nodes"][st["node"]], prog["nodes"][st["callee"]]
            if a["kind"] != "memento" or not any(c["to"] == b["id"] and c["form"] == "declared" for c in a["calls"]):
                return ["skipped"]
            mb = sys.modules[modname(prog, b["module"])]
            obj = mb.__dict__.pop(b["name"])
            try:
                getattr(sys.modules[modname(prog, a["module"])], a["name"]).version()     # the declared dependency is missing
            finally:
                setattr(mb, b["name"], obj)
        return ["no-exception"]
    except BaseException as e:  # noqa
        return ["raised", type(e).__name__]


def lifetime_body(root, case, prog, steps, memo, li, emit):
    world.install_seams(case["seed"] + li)
    side = world.SideChannel()
    if memo:
        world.make_env(root, world.make_storage("filesystem", root + "/store", cache_mb=2 if case.get("cache") else None))
    else:
        import twosigma.memento as mm
        mm.memento_function = passthrough
    import_program(prog, root)
    cur = prog
    for si, st in steps:
        if st["op"] == "edit":
            new, touched = apply_with_discipline(cur, st["edit"], st["n"])
            deliver(cur, new, touched, st["edit"], st["delivery"])
            cur = new
        elif st["op"] == "call":
            nd = cur["nodes"][st["node"]] if st["node"] < len(cur["nodes"]) else None
            if nd is None or nd["kind"] != "memento" or nd["explicit"] is not None:
                continue
            emit({"si": si, "call": do_call(cur, st, memo, side)})
        elif st["op"] == "deps" and memo:
            emit({"si": si, "deps": do_deps(cur, st.get("order"))})
        elif st["op"] == "mishap" and memo:
            emit({"si": si, "mishap": do_mishap(cur, st)})


def run_lifetime(root, case, prog, steps, memo, li):
    if case.get("fresh_interpreters"):
        return run_lifetime_fresh(root, case, prog, steps, memo, li)

    def body(emit):
        lifetime_body(root, case, prog, steps, memo, li, emit)
    return core.lifetime(body)


def run_lifetime_fresh(root, case, prog, steps, memo, li):
    """The lifetime is a fresh interpreter with its own PYTHONHASHSEED (thorough tier)."""
    import json
    import subprocess
    job = {"root": root, "case": {k: case[k] for k in ("seed", "cache")}, "prog": prog, "steps": steps, "memo": memo, "li": li}
    jp = "%s/job-%d-%d.json" % (root, li, int(memo))
    op = jp + ".out"
    with open(jp, "w") as f:
        json.dump(job, f)
    hs = core.stream(case["seed"] + li, "hashseed-%d" % int(memo)).randrange(1, 4294967295)
    env = dict(os.environ, PYTHONHASHSEED=str(hs), PYTHONDONTWRITEBYTECODE="1")
    r = subprocess.run([sys.executable, "-m", "sim.evolife", jp, op], cwd=core.VERIF, env=env, capture_output=True, text=True,
                       timeout=core.LIFETIME_TIMEOUT * 3)
    if r.returncode != 0 or not os.path.exists(op):
        raise core.HarnessError("fresh-interpreter lifetime failed: %s" % (r.stdout + r.stderr)[-1500:])
    raw = open(op).read().replace(root, "<root>")
    evs = [json.loads(line) for line in raw.splitlines()]
    for e in evs:
        if isinstance(e, dict) and "HARNESS" in e:
            if e.get("lib"):
                raise core.LibraryRaised(e.get("exc", "?"), e["HARNESS"])
            raise core.HarnessError("fresh-interpreter lifetime failed: " + e["HARNESS"])
    return evs, 0


def qn(prog, nid):
    nd = prog["nodes"][nid]
    return "%s:%s" % (modname(prog, nd["module"]), nd["name"])


def expected_deps(prog):
    out = {}
    for nd in prog["nodes"]:
        if nd["kind"] != "memento":
            continue
        edges = sorted([qn(prog, a), qn(prog, b)] for a, b in progen.memento_edges(prog, nd["id"]))
        out[nd["name"]] = {"trans": sorted(qn(prog, j) for j in progen.closure_memento(prog, nd["id"])),
                           "direct": sorted(qn(prog, j) for j in progen.direct_memento(prog, nd["id"])),
                           "edges": edges}
    return out


def execute_history(case, want):
    """want: subset of {"c01", "c14"}.  Returns (violations, log, stats)."""
    root = core.new_scratch("evo")
    viol = []
    log = []
    stats = {}

    def bump(k, n=1):
        stats[k] = stats.get(k, 0) + n
    DISCIPLINE[0] = not case.get("no_discipline")
    if case.get("no_discipline"):
        bump("histories_without_explicit_version_bumps")
    try:
        os.makedirs(root + "/src")
        prog = case["prog"]
        if any(c.get("back") for n in prog["nodes"] for c in n["calls"]):
            bump("programs_with_mutual_recursion")
        if any(c["form"] == "declared" for n in prog["nodes"] for c in n["calls"]):
            bump("programs_with_declared_dependencies")
        if any(n.get("lam") for n in prog["nodes"]):
            bump("programs_with_lambda_helpers")
        steps = list(enumerate(case["steps"]))
        # split into lifetimes
        lives = [[]]
        for si, st in steps:
            if st["op"] == "restart":
                lives.append([])
            elif st["op"] == "edit" and st["delivery"] == "restart":
                lives.append([(si, st)])   # the edit is applied by the parent before the lifetime starts
            else:
                lives[-1].append((si, st))
        cur = prog
        last_edit = None
        history_kinds = []
        for li, life in enumerate(lives):
            if life and life[0][1]["op"] == "edit" and life[0][1]["delivery"] == "restart":
                st = life[0][1]
                cur, _ = apply_with_discipline(cur, st["edit"], st["n"])
                last_edit = st
                history_kinds.append(st["edit"]["kind"])
                life = life[1:]
                bump("edits_cross_process")
            if li > 0:
                bump("restarts")
            shutil.rmtree(root + "/src/" + progen.PKG, ignore_errors=True)
            shutil.rmtree(root + "/src/" + progen.PKG + "q", ignore_errors=True)
            progen.write_package(cur, root + "/src")
            if not any(st["op"] in ("call", "deps") for _, st in life):
                for _, st in life:
                    if st["op"] == "edit":
                        cur, _ = apply_with_discipline(cur, st["edit"], st["n"])
                continue
            ev_m, _ = run_lifetime(root, case, cur, life, True, li)
            ev_r, _ = run_lifetime(root, case, cur, life, False, li)
            ref = {e["si"]: e["call"] for e in ev_r if "call" in e}
            got = {e["si"]: e for e in ev_m}
            # walk the lifetime's steps with the parent's own copy of the program state
            for si, st in life:
                if st["op"] == "edit":
                    cur, _ = apply_with_discipline(cur, st["edit"], st["n"])
                    last_edit = st
                    history_kinds.append(st["edit"]["kind"])
                    bump("edits_in_process")
                    bump("delivery:" + st["delivery"])
                    continue
                g = got.get(si)
                if g is None:
                    continue
                log.append([si, g.get("call") and [[c["out"][:2] if c["out"][0] != "ok" else "ok", c["runs"]] for c in g["call"]] or sorted(g.get("deps", {}))])
                if st["op"] == "mishap":
                    bump("mishaps")
                    bump("mishap:" + st["kind"] + ":" + g["mishap"][0])
                if st["op"] == "call":
                    bump("calls")
                    bump("via:" + st["via"])
                    fnargs = [j for j in (st.get("fnargs") or []) if j in (cur["nodes"][st["node"]].get("fparams") or [])
                              and cur["nodes"][j]["kind"] == "memento"]
                    if fnargs:
                        bump("calls_with_function_argument")
                    exp_kind = progen.expected_outcome(cur, st["node"], st["x"], fnargs)
                    if exp_kind == "ude":
                        bump("calls_expected_ude")
                    for ci, (gm, rf) in enumerate(zip(g["call"], ref[si])):
                        out = gm["out"]
                        if rf["out"][0] != "ok":
                            raise core.HarnessError("reference run failed: %r" % (rf,))
                        exp = rf["out"][1]
                        if st["via"] == "ignore_result" and out[0] == "ok":
                            ok = out[1] == ["ignored", None]
                            cls = "ignore-result-returned-value"
                        elif out[0] == "ok":
                            ok = out[1] == exp
                            cls = None if ok else progen.classify(cur, st["node"], out[1], exp)
                        elif out[0] == "ude":
                            ok = True
                            bump("ude_raised")
                        else:
                            ok = False
                            cls = "raised:" + out[1]
                        if gm["runs"] == [] and out[0] == "ok":
                            bump("served_from_store")
                        if "c01" in want and not ok:
                            viol.append(core.violation(
                                "stale-or-wrong-result" if out[0] == "ok" else "call-raised",
                                {"ingredient": str(cls).split(".")[-1], "path": "hidden-call" if "hidden" in str(cls) else "visible"},
                                {"step": si, "got": out, "expected": exp, "runs": gm["runs"], "second_of_twice": ci == 1,
                                 "ingredient_path": str(cls), "via": st["via"],
                                 "last_edit": last_edit["edit"] if last_edit else None,
                                 "delivery": last_edit["delivery"] if last_edit else None}))
                            break
                        if "c14" in want:
                            root_ran = cur["nodes"][st["node"]]["name"] in gm["runs"]
                            if exp_kind == "ude" and out[0] == "ok" and (st["via"] != "ignore_result" or root_ran):
                                viol.append(core.violation(
                                    "undeclared-call-not-refused", {"via": st["via"]},
                                    {"step": si, "got": out, "runs": gm["runs"]}))
                                break
                            if exp_kind == "value" and out[0] == "ude":
                                viol.append(core.violation(
                                    "declared-call-refused", {"via": st["via"]}, {"step": si, "runs": gm["runs"]}))
                                break
                elif st["op"] == "deps" and "c14" in want:
                    bump("deps_states")
                    exp = expected_deps(cur)
                    for name in sorted(exp):
                        r = g["deps"].get(name)
                        if r is None:
                            continue
                        if "exc" in r:
                            viol.append(core.violation("dependencies-raised", {"exc": r["exc"][0]}, {"step": si, "fn": name, "exc": r["exc"]}))
                            break
                        for what in ("trans", "direct", "edges"):
                            if r[what] != exp[name][what]:
                                gs = set(map(str, r[what]))
                                es = set(map(str, exp[name][what]))
                                nd_ = [n for n in cur["nodes"] if n["name"] == name][0]
                                extra = gs - es
                                missing = es - gs
                                selfq = qn(cur, nd_["id"])
                                expl = set(qn(cur, n["id"]) for n in cur["nodes"] if n["explicit"] is not None)
                                if what == "edges":
                                    through_explicit = bool(missing) and all(eval(m_)[0] in expl for m_ in missing)
                                    self_listed = any(eval(x_)[1] == eval(x_)[0] or eval(x_)[1] == selfq for x_ in extra)
                                else:
                                    through_explicit = nd_["explicit"] is not None
                                    self_listed = selfq in extra
                                viol.append(core.violation(
                                    "dependency-%s-inexact" % what,
                                    {"diff": "missing" if gs < es else "extra" if gs > es else "other",
                                     "explicit_version_source": through_explicit, "self_listed": self_listed},
                                    {"step": si, "fn": name, "got": r[what], "expected": exp[name][what],
                                     "after": history_kinds[-3:]}))
                                break
                        if viol:
                            break
                if viol:
                    break
            if viol:
                break
    finally:
        shutil.rmtree(root, ignore_errors=True)
        DISCIPLINE[0] = True
    return viol[:1], log, stats
