"""C03 — function versions are deterministic, so unchanged programs reuse stored results (engine `evo`, multi-interpreter)."""
import json
import os
import shutil
import subprocess
import sys

from sim import core, progen

PROP = "C03"
LEVEL = "exploration"
BUDGET = {"quick": 400, "thorough": 1700}
NBATCH = {"quick": 32, "thorough": 300}
PER_BATCH = {"quick": 30, "thorough": 40}
RULE = ("batches of generated programs; per batch 3 (quick) or 4 (thorough) fresh interpreters ('nodes'), each with its own "
        "PYTHONHASHSEED drawn from the PRNG, its own permutation of definition order inside every module, of module import "
        "order and of the order in which version() is first asked; node 1 runs a call workload on an empty store, node 2 "
        "runs the same workload on the same store; a case is one batch; non-trivial programs have >= 2 memento functions; "
        "distinct = distinct program digest")
ASSUMPTIONS = ["permutations respect what Python itself requires (an alias after its target); everything else is permuted freely",
               "hash seeds are sampled (3-4 per program), not enumerated"]
COMPONENTS = {"real": ["twosigma.memento (all)", "fresh CPython interpreters with real hash randomisation seeds", "import system", "filesystem store on tmpfs"],
              "stub": ["generated user program", "uuid4, clock"]}
REACH = ["programs_with_lambda_helpers", "programs_with_declared_dependencies", "programs_with_mutual_recursion", "programs_with_two_packages", "programs", "programs_with_set_constants", "second_node_calls", "nodes"]


def cases(tier, seed):
    out = []
    for b in range(NBATCH[tier]):
        s = core.run_seed(seed, PROP, b)
        rng = core.stream(s, "gen")
        progs = []
        for i in range(PER_BATCH[tier]):
            F = {"p_hidden": 0.0, "p_fparam": 0.0, "p_setc": 0.6, "p_two_packages": 0.4}
            p = progen.gen_program(rng, F)
            roots = [n["id"] for n in p["nodes"] if n["kind"] == "memento" and n["explicit"] is None]
            calls = [[roots[rng.randrange(len(roots))], rng.choice([0, 1, 2])] for _ in range(rng.randrange(1, 4))]
            nodes = []
            for j in range(3 if tier == "quick" else 4):
                mem = [n["id"] for n in p["nodes"] if n["kind"] == "memento"]
                rng.shuffle(mem)
                imp = list(range(len(p["modules"])))
                rng.shuffle(imp)
                nodes.append({"orders": {str(mi): progen.permuted_order(p, mi, rng) for mi in range(len(p["modules"]))},
                              "import_order": imp, "query_order": mem})
            progs.append({"prog": p, "calls": calls, "nodes": nodes, "cache": rng.random() < 0.3})
        hs = [rng.randrange(1, 4294967295) for _ in range(4)]
        out.append({"seed": s, "hashseeds": hs, "programs": progs})
    return out


def _run_node(root, case, j, run_calls):
    job = {"root": root, "seed": case["seed"], "node": j, "programs": []}
    for idx, pj in enumerate(case["programs"]):
        nd = pj["nodes"][j]
        job["programs"].append({"idx": idx, "prog": pj["prog"], "orders": nd["orders"], "import_order": nd["import_order"],
                                "query_order": nd["query_order"], "calls": pj["calls"], "run_calls": run_calls,
                                "cache": pj["cache"]})
    jp = os.path.join(root, "job-%d.json" % j)
    op = os.path.join(root, "out-%d.json" % j)
    with open(jp, "w") as f:
        json.dump(job, f)
    env = dict(os.environ, PYTHONHASHSEED=str(case["hashseeds"][j]), PYTHONDONTWRITEBYTECODE="1")
    r = subprocess.run([sys.executable, "-m", "sim.evonode", jp, op], cwd=core.VERIF, env=env, capture_output=True, text=True,
                       timeout=core.LIFETIME_TIMEOUT * 5)
    if r.returncode != 0 or not os.path.exists(op):
        raise core.HarnessError("node %d failed: %s" % (j, (r.stdout + r.stderr)[-1500:]))
    return json.load(open(op))


def execute(case):
    root = core.new_scratch("c03")
    viol = []
    stats = {"programs": len(case["programs"])}
    try:
        nn = len(case["programs"][0]["nodes"])
        outs = [_run_node(root, case, 0, True)]
        for j in range(1, nn):
            outs.append(_run_node(root, case, j, j == 1))
        stats["nodes"] = nn
        log = []
        for idx, pj in enumerate(case["programs"]):
            rs = [o["programs"][str(idx)] for o in outs]
            for j, r in enumerate(rs):
                if "error" in r:
                    if r.get("error_lib"):
                        raise core.LibraryRaised(r.get("error_type", "?"), "program %d on node %d: %s" % (idx, j, r["error"]))
                    raise core.HarnessError("program %d failed on node %d: %s" % (idx, j, r["error"]))
            p = pj["prog"]
            if any(p.get("pkg") or []):
                stats["programs_with_two_packages"] = stats.get("programs_with_two_packages", 0) + 1
            if any(c.get("back") for n in p["nodes"] for c in n["calls"]):
                stats["programs_with_mutual_recursion"] = stats.get("programs_with_mutual_recursion", 0) + 1
            if any(c["form"] == "declared" for n in p["nodes"] for c in n["calls"]):
                stats["programs_with_declared_dependencies"] = stats.get("programs_with_declared_dependencies", 0) + 1
            if any(n.get("lam") for n in p["nodes"]):
                stats["programs_with_lambda_helpers"] = stats.get("programs_with_lambda_helpers", 0) + 1
            if any(n["setc"] is not None for n in p["nodes"]):
                stats["programs_with_set_constants"] = stats.get("programs_with_set_constants", 0) + 1
            v0 = rs[0]["versions"]
            log.append([idx, sorted(v0.items())])
            for j in range(1, nn):
                if rs[j]["versions"] != v0:
                    diff = sorted(k for k in v0 if rs[j]["versions"].get(k) != v0[k])
                    nd = [n for n in p["nodes"] if n["name"] == diff[0]][0]
                    # which ingredient kinds does the closure of the differing function contain?
                    reach = set([nd["id"]])
                    st = [nd["id"]]
                    while st:
                        for c in p["nodes"][st.pop()]["calls"]:
                            if c["to"] not in reach:
                                reach.add(c["to"])
                                st.append(c["to"])
                    has_set = any(p["nodes"][i]["setc"] is not None for i in reach)
                    viol.append(core.violation("version-differs-between-processes", {"closure_has_set_constant": has_set},
                                               {"program": idx, "functions": diff, "node0": [case["hashseeds"][0], v0[diff[0]]],
                                                "node%d" % j: [case["hashseeds"][j], rs[j]["versions"][diff[0]]],
                                                "prog": p, "orders": [pj["nodes"][0]["orders"], pj["nodes"][j]["orders"]]}))
                    break
            if viol:
                break
            # second node: nothing executes, same values
            for ci, (c0, c1) in enumerate(zip(rs[0]["calls"], rs[1]["calls"])):
                stats["second_node_calls"] = stats.get("second_node_calls", 0) + 1
                if c1["runs"]:
                    viol.append(core.violation("second-process-executed-bodies", {}, {"program": idx, "call": pj["calls"][ci], "runs": c1["runs"]}))
                    break
                if c1["out"] != c0["out"]:
                    viol.append(core.violation("second-process-different-value", {}, {"program": idx, "call": pj["calls"][ci],
                                                                                     "first": c0["out"], "second": c1["out"]}))
                    break
            if viol:
                break
    finally:
        shutil.rmtree(root, ignore_errors=True)
    log = locals().get("log", [])
    dg = core.digest_of(log if not viol else [log, viol[0]["clause"]])
    keys = [core.digest_of(pj["prog"]) for pj in case["programs"]
            if sum(1 for n in pj["prog"]["nodes"] if n["kind"] == "memento") >= 2]
    return {"violations": viol[:1], "digest": dg, "nontrivial": True, "stats": stats, "steps": len(log), "key": dg,
            "evaluations": len(case["programs"]) * len(case["programs"][0]["nodes"]), "keys": keys,
            "sample": {"hashseeds": case["hashseeds"], "first_program_nodes": [[n["name"], n["kind"]] for n in case["programs"][0]["prog"]["nodes"]],
                       "first_program_orders": case["programs"][0]["nodes"][0]["orders"]}}


def shrink(case, same, budget_s):
    # keep only the failing program
    for i in range(len(case["programs"])):
        c = dict(case)
        c["programs"] = [case["programs"][i]]
        if same(c):
            return c
    return case
