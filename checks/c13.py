"""C13 — the in-process version cache is coherent with a from-scratch computation (engine `evo`).

One long lifetime A executes a history of notebook-style cells (definitions in any order,
redefinitions, rebinding / mutation of tracked variables, memento<->plain swaps, clones,
unregistered wrappers) with version queries interleaved at every position.  At each query
point sibling lifetimes replay the cells so far WITHOUT any earlier query, clone or wrapper
(B_full: every cell; B_min: only the live ones) and ask once.  DESIGN.md 4/C13."""
import copy
import shutil
import sys

from sim import core, progen, world
from . import evo

PROP = "C13"
LEVEL = "exploration"
BUDGET = {"quick": 300, "thorough": 1700}
NCASES = {"quick": 900, "thorough": 12000}
RULE = ("generated packages delivered as notebook-style cells in a random global order (callers before callees allowed), then "
        "2-8 in-process events (redefinition of one unit, rebind / in-place mutation of a tracked variable, call-edge edits, "
        "memento<->plain swaps, explicit-version bumps, salt changes), with clone / unregistered-wrapper creation and version "
        "queries (version(), fn_reference().qualified_name, fresh ignore_result/force_local/partial/with_context_args clone, "
        "fresh unregistered MementoFunction, previously held clones) interleaved at every position on varying subsets; the "
        "oracle at each query point is a pair of fresh lifetimes replaying the identical cell texts without queries; "
        "non-trivial = >= 2 query points after the first redefinition; distinct = distinct event-log digest")
ASSUMPTIONS = ["clusters are never locked (the statement's exception)",
               "aliases of a redefined function are re-bound by the same event (user discipline)",
               "both sides execute byte-identical source units (CPython compiles the same def differently in different units)",
               "a held clone is queried only while the function it was cloned from is still the current binding"]
COMPONENTS = {"real": ["twosigma.memento version computation, hash rules, generation counter, version cache", "CPython exec/compile/linecache"],
              "stub": ["generated user program", "uuid4, clock"]}
REACH = ["events:failed_definition", "events:rebind_to_unencodable_value", "programs_with_declared_dependencies", "programs_with_mutual_recursion", "events:define_builtin", "queries", "query_points", "via:unregistered", "via:clone", "via:held-clone", "events:redefine", "events:mutate",
         "events:rebind", "events:swap_kind", "queried_with_undefined_callee"]

QVIAS = ["attr", "attr", "qn", "clone:ignore_result", "clone:force_local", "clone:partial", "clone:context", "unregistered"]


def unit_cell(prog, u):
    u = tuple(u)
    if u[0] == "g":
        mi = prog["globals"][u[1]]["module"]
    elif u[0] == "b":
        mi = u[1]
    else:
        mi = prog["nodes"][u[1]]["module"]
    return {"op": "cell", "module": mi, "text": progen.render_unit(prog, u), "unit": list(u)}


def gen_case(seed):
    rng = core.stream(seed, "gen")
    F = {"p_hidden": 0.0, "p_inith": 0.0}      # (modules live in memory here: no package __init__ file)
    for k, p in (("p_alias", 0.5), ("p_wrapped", 0.5), ("p_recur", 0.6), ("p_explicit", 0.5), ("p_salt", 0.4)):
        if rng.random() > p:
            F[k] = 0.0
    prog = progen.gen_program(rng, F, n_nodes=rng.randrange(2, 7))
    events = []   # concrete events of lifetime A
    # headers
    for mi in range(len(prog["modules"]) - 1, -1, -1):
        events.append({"op": "cell", "module": mi, "text": progen.header(prog, mi), "unit": ["hdr", mi]})
    units = []
    for mi in range(len(prog["modules"])):
        units += [tuple(u) for u in progen.default_order(prog, mi)]
    plain_units = [u for u in units if u[0] not in ("a", "w")]
    rng.shuffle(plain_units)
    order = list(plain_units)
    for u in units:
        if u[0] in ("a", "w"):
            pos = order.index(("n", u[1])) + 1
            order.insert(pos + rng.randrange(0, len(order) - pos + 1), u)
    order = progen.declared_first(prog, order)   # a caller that declares dependencies=[...] is defined after them
    defined = set()
    cur = prog
    counter = 1
    held = 0

    def maybe_query():
        nonlocal held
        names = [n for n in cur["nodes"] if n["kind"] == "memento" and ("n", n["id"]) in defined]
        if not names:
            return
        if rng.random() < 0.25:
            n = names[rng.randrange(len(names))]
            events.append({"op": "hold", "node": n["id"], "module": n["module"], "name": n["name"], "how": rng.choice(["ignore_result", "force_local", "partial", "context"]),
                           "slot": held})
            held += 1
        if rng.random() < 0.65:
            k = rng.randrange(1, len(names) + 1)
            pick = rng.sample(names, k)
            events.append({"op": "query", "nodes": [[n["id"], rng.choice(QVIAS)] for n in pick], "prog": copy.deepcopy(cur),
                           "defined": sorted(n["id"] for n in cur["nodes"] if ("n", n["id"]) in defined)})
    for u in order:
        events.append(unit_cell(cur, u))
        defined.add(u)
        maybe_query()
    for _ in range(rng.randrange(2, 9)):
        e = progen.gen_edit(rng, cur, counter, weights=[4, 2, 1, 1, 1, 2, 2, 3, 1.5, 1.5, 1, 1.5, 1, 1, 0.7, 0.5])
        counter += 1
        if e["kind"] == "inith":
            continue        # (a cross-process edit: not an in-process event)
        if e["kind"] == "add_edge" and e.get("form") == "hidden":
            e["form"] = "bare" if cur["nodes"][e["node"]]["module"] == cur["nodes"][e["to"]]["module"] else "attr"
        new, touched = evo.apply_with_discipline(cur, e, counter)
        if e["kind"] == "global" and e["how"] == "mutate":
            g = new["globals"][e["gid"]]
            events.append({"op": "mutate", "module": g["module"], "name": g["name"], "n": e["n"], "unit": ["g", e["gid"]],
                           "folded": progen.render_global(new, e["gid"])})
            touched = set(u for u in touched if u[0] != "g")
        elif e["kind"] == "global" and rng.random() < 0.5:
            g = new["globals"][e["gid"]]
            events.append({"op": "setattr", "module": g["module"], "name": g["name"], "value": g["value"], "unit": ["g", e["gid"]],
                           "folded": progen.render_global(new, e["gid"])})
            touched = set(u for u in touched if u[0] != "g")
        ordk = {"g": 0, "b": 0, "n": 1, "a": 2, "w": 2}
        for u in progen.cell_order(new, touched):
            ev = unit_cell(new, u)
            ev["kind"] = e["kind"]
            events.append(ev)
            defined.add(u)
        cur = new
        maybe_query()
        if rng.random() < 0.4:
            maybe_query()
    if rng.random() < 0.2:
        # a name is bound to a callable of another package for a while and then to the same memento function again,
        # with the functions that use it asked for their version in between
        cands = [n["id"] for n in cur["nodes"] if n["kind"] == "memento" and n["id"] != 0 and not n.get("frozen")
                 and not progen.in_cycle(cur, n["id"])
                 and not any(c["to"] == n["id"] and c["form"] == "declared" for a in cur["nodes"] for c in a["calls"])
                 and any(c["to"] == n["id"] and c["form"] in ("bare", "attr") for a in cur["nodes"] if a["kind"] == "memento" for c in a["calls"])]
        if cands:
            j = cands[rng.randrange(len(cands))]
            for to in ("foreign", "memento"):
                counter += 1
                e = {"kind": "swap_kind", "node": j, "to_kind": to}
                new, touched = evo.apply_with_discipline(cur, e, counter)
                ordk = {"g": 0, "b": 0, "n": 1, "a": 2, "w": 2}
                for u in progen.cell_order(new, touched):
                    ev = unit_cell(new, u)
                    ev["kind"] = "swap_kind"
                    events.append(ev)
                    defined.add(u)
                cur = new
                callers = [n for n in cur["nodes"] if n["kind"] == "memento" and any(c["to"] == j for c in n["calls"])]
                events.append({"op": "query", "nodes": [[n["id"], rng.choice(["attr", "qn"])] for n in callers], "prog": copy.deepcopy(cur),
                               "defined": sorted(n["id"] for n in cur["nodes"] if ("n", n["id"]) in defined)})
    if rng.random() < 0.3:
        # a tracked list / dict variable is re-bound to a value of the same type that the codec cannot encode (a set inside
        # the list, a tuple as dictionary key): from then on the library does not track it - exactly what a fresh process
        # does with such a variable.  Last event of the history (nothing is called in C13, only versions are asked).
        cands = [g for g in cur["globals"] if g["kind"] in ("list", "dict") and not g.get("src")
                 and any(nd["kind"] == "memento" and not nd.get("noauto") for nd in cur["nodes"] if g["id"] in nd["globals"])]
        if cands:
            g = cands[rng.randrange(len(cands))]
            users = [nd for nd in cur["nodes"] if g["id"] in nd["globals"] and nd["kind"] == "memento"]
            events.append({"op": "query", "nodes": [[n["id"], rng.choice(["attr", "qn"])] for n in users], "prog": copy.deepcopy(cur),
                           "defined": sorted(n["id"] for n in cur["nodes"] if ("n", n["id"]) in defined)})
            src = "[%d, {%d}]" % (counter, counter) if g["kind"] == "list" else "{(1, 2): %d}" % counter
            events.append({"op": "cell", "module": g["module"], "text": "%s = %s\n" % (g["name"], src), "unit": ["g", g["id"]],
                           "kind": "rebind-unencodable"})
            cur = copy.deepcopy(cur)
            cur["globals"][g["id"]]["src"] = src      # from here on the variable is untracked: no later event re-binds it (the
            #                                           way back to a tracked value is outside the statement, DESIGN 9.3)
            events.append({"op": "query", "nodes": [[n["id"], rng.choice(["attr", "qn"])] for n in users], "prog": copy.deepcopy(cur),
                           "defined": sorted(n["id"] for n in cur["nodes"] if ("n", n["id"]) in defined)})
    if rng.random() < 0.3:
        # a definition that fails: the cell of a function with a declared dependency is re-run while that dependency is
        # (momentarily) not bound - the decorator raises, the name keeps its old definition, the program is what it was
        decl = [(a, cur["nodes"][c["to"]]) for a in cur["nodes"] if a["kind"] == "memento" and ("n", a["id"]) in defined
                for c in a["calls"] if c["form"] == "declared" and ("n", c["to"]) in defined]
        if decl:
            a, b = decl[rng.randrange(len(decl))]
            events.append({"op": "glitchcell", "module": a["module"], "text": progen.render_unit(cur, ("n", a["id"])),
                           "hide_module": b["module"], "hide_name": b["name"]})
            users = [n for n in cur["nodes"] if n["kind"] == "memento" and ("n", n["id"]) in defined]
            events.append({"op": "query", "nodes": [[n["id"], rng.choice(["attr", "qn"])] for n in rng.sample(users, min(len(users), 3))],
                           "prog": copy.deepcopy(cur), "defined": sorted(n["id"] for n in cur["nodes"] if ("n", n["id"]) in defined)})
            gl = [g for g in cur["globals"] if not g.get("src") and a["id"] in progen.global_users(cur, g["id"])]
            if gl:
                # ... and afterwards an ordinary event that changes that function's version
                g = gl[rng.randrange(len(gl))]
                counter += 1
                e = {"kind": "global", "gid": g["id"], "value": progen.bump_global(g, counter + 40), "how": "rebind", "n": counter}
                new, touched = evo.apply_with_discipline(cur, e, counter)
                for u in progen.cell_order(new, touched):
                    ev = unit_cell(new, u)
                    ev["kind"] = "global"
                    events.append(ev)
                    defined.add(u)
                cur = new
    names = [n for n in cur["nodes"] if n["kind"] == "memento"]
    events.append({"op": "query", "nodes": [[n["id"], "attr"] for n in names], "prog": copy.deepcopy(cur),
                   "defined": sorted(n["id"] for n in cur["nodes"])})
    return {"seed": seed, "modules": prog["modules"], "events": events}


def cases(tier, seed):
    return [gen_case(core.run_seed(seed, PROP, i)) for i in range(NCASES[tier])]


# ----------------------------------------------------------------------------- execution

def _mods(case):
    for mi, name in enumerate(case["modules"]):
        world.load_module("%s.%s" % (progen.PKG, name), "")


def _apply(case, ev):
    name = "%s.%s" % (progen.PKG, case["modules"][ev["module"]])
    if ev["op"] == "cell":
        world.load_module(name, ev["text"])
    elif ev["op"] == "setattr":
        setattr(sys.modules[name], ev["name"], copy.deepcopy(ev["value"]))
    elif ev["op"] == "glitchcell":
        hm = sys.modules["%s.%s" % (progen.PKG, case["modules"][ev["hide_module"]])]
        obj = hm.__dict__.pop(ev["hide_name"], None)
        try:
            world.load_module(name, ev["text"])
        except Exception:  # noqa   (the decorator cannot resolve the declared dependency)
            pass
        finally:
            if obj is not None:
                setattr(hm, ev["hide_name"], obj)
    elif ev["op"] == "mutate":
        live = getattr(sys.modules[name], ev["name"])
        if isinstance(live, list):
            live.append(ev["n"])
        else:
            live["z%d" % ev["n"]] = ev["n"]


def _fn(case, prog, nid):
    nd = prog["nodes"][nid]
    return getattr(sys.modules["%s.%s" % (progen.PKG, case["modules"][nd["module"]])], nd["name"], None)


def _version(fn, via):
    from twosigma.memento import MementoFunction
    try:
        if via == "attr":
            return fn.version()
        if via == "qn":
            q = fn.fn_reference().qualified_name
            return q.split("#", 1)[1] if "#" in q else None
        if via == "clone:ignore_result":
            return fn.ignore_result().version()
        if via == "clone:force_local":
            return fn.force_local().version()
        if via == "clone:partial":
            return fn.partial(1).version()
        if via == "clone:context":
            return fn.with_context_args({"c": 1}).version()
        if via == "unregistered":
            if fn.explicit_version is not None:
                return MementoFunction(fn.fn, version=fn.explicit_version, register_fn=False).version()
            return MementoFunction(fn.fn, version_salt=fn._constructor_provided_version_salt,
                                   dependencies=sorted(fn.required_dependencies) if fn.required_dependencies else None,
                                   auto_dependencies=fn.auto_dependencies is not False,
                                   register_fn=False).version()
        raise core.HarnessError(via)
    except core.HarnessError:
        raise
    except Exception as e:  # noqa
        import traceback
        return {"exc": type(e).__name__, "msg": str(e)[:150], "tb": traceback.format_exc()[-700:]}


def life_a(case):
    def body(emit):
        world.install_seams(case["seed"])
        world.SideChannel()
        root = core.new_scratch("c13")
        world.make_env(root, world.make_storage("memory", root))
        _mods(case)
        held = {}
        for i, ev in enumerate(case["events"]):
            if ev["op"] == "query":
                ans = []
                for nid, via in ev["nodes"]:
                    fn = _fn(case, ev["prog"], nid)
                    if fn is None or not hasattr(fn, "version"):
                        continue
                    ans.append([nid, via, _version(fn, via)])
                # previously held clones of functions that are still the current binding
                for slot, (nid, src, clone) in sorted(held.items()):
                    fn = _fn(case, ev["prog"], nid) if nid < len(ev["prog"]["nodes"]) else None
                    if fn is src and hasattr(fn, "version"):
                        ans.append([nid, "held-clone", _version(clone, "attr")])
                emit({"i": i, "answers": ans})
            elif ev["op"] == "hold":
                fn = getattr(sys.modules["%s.%s" % (progen.PKG, case["modules"][ev["module"]])], ev["name"], None)
                if fn is None or not hasattr(fn, "partial"):
                    continue
                try:
                    c = {"ignore_result": lambda: fn.ignore_result(), "force_local": lambda: fn.force_local(),
                         "partial": lambda: fn.partial(1), "context": lambda: fn.with_context_args({"c": 2})}[ev["how"]]()
                    held[ev["slot"]] = (ev["node"], fn, c)
                except Exception as e:  # noqa
                    emit({"i": i, "hold_exc": [type(e).__name__, str(e)[:150]]})
            else:
                _apply(case, ev)
    return core.lifetime(body)


def life_b(case, events, prog, tag):
    def body(emit):
        world.install_seams(case["seed"])
        world.SideChannel()
        root = core.new_scratch("c13b")
        world.make_env(root, world.make_storage("memory", root))
        _mods(case)
        for ev in events:
            _apply(case, ev)
        out = {}
        for nd in prog["nodes"]:
            if nd["kind"] != "memento":
                continue
            fn = _fn(case, prog, nd["id"])
            if fn is not None and hasattr(fn, "version"):
                out[str(nd["id"])] = _version(fn, "attr")
        emit({tag: out})
    ev, _ = core.lifetime(body)
    return ev[-1][tag]


def live_events(events, prog):
    """B_min: for each bound unit only its last binding cell; in-place mutations folded into one assignment.
    Aliases that no function of the current program mentions any more are dead bindings and are dropped."""
    used_alias = set(c["to"] for n in prog["nodes"] for c in n["calls"] if c["form"] == "alias")
    used_wrapped = set(c["to"] for n in prog["nodes"] for c in n["calls"] if c["form"] == "wrapped")
    events = [e for e in events if not (e["op"] == "cell" and e["unit"][0] == "a" and e["unit"][1] not in used_alias)
              and not (e["op"] == "cell" and e["unit"][0] == "w" and e["unit"][1] not in used_wrapped)]
    last = {}
    for i, ev in enumerate(events):
        if ev["op"] in ("cell", "setattr", "mutate"):
            last[tuple(ev["unit"])] = i
    out = []
    for i, ev in enumerate(events):
        if ev["op"] not in ("cell", "setattr", "mutate"):
            continue
        if last[tuple(ev["unit"])] != i:
            continue
        if ev["op"] in ("setattr", "mutate"):
            out.append({"op": "cell", "module": ev["module"], "text": ev["folded"], "unit": ev["unit"]})
        else:
            out.append(ev)
    # a caller that declares dependencies=[...] can only be defined after them: when the callee's last definition
    # is later than the caller's (the callee was redefined), the from-scratch program defines the callee first
    for _ in range(len(out) * len(out) + 1):
        moved = False
        pos = {tuple(e["unit"]): i for i, e in enumerate(out)}
        for nd in prog["nodes"]:
            for c in nd["calls"]:
                if c["form"] == "declared":
                    a, b = pos.get(("n", nd["id"])), pos.get(("n", c["to"]))
                    if a is not None and b is not None and a < b:
                        out.insert(a, out.pop(b))
                        moved = True
                        break
            if moved:
                break
        if not moved:
            break
    return out


def execute(case):
    viol = []
    stats = {}
    log = []

    def bump(k, n=1):
        stats[k] = stats.get(k, 0) + n
    try:
        if any(c.get("back") for ev in case["events"] if ev.get("prog") for n in ev["prog"]["nodes"] for c in n["calls"]):
            bump("programs_with_mutual_recursion")
        if any(c["form"] == "declared" for ev in case["events"] if ev.get("prog") for n in ev["prog"]["nodes"] for c in n["calls"]):
            bump("programs_with_declared_dependencies")
        ev_a, _ = life_a(case)
        answers = {e["i"]: e["answers"] for e in ev_a if "answers" in e}
        for e in ev_a:
            if "hold_exc" in e:
                viol.append(core.violation("clone-creation-raised", {"exc": e["hold_exc"][0]}, {"i": e["i"], "exc": e["hold_exc"]}))
        redefined = False
        qp_after = 0
        for i, ev in enumerate(case["events"]):
            if viol:
                break
            if ev["op"] == "glitchcell":
                bump("events:failed_definition")
            if ev["op"] == "cell" and ev.get("kind"):
                redefined = True
                bump("events:redefine")
                if ev["kind"] == "rebind-unencodable":
                    bump("events:rebind_to_unencodable_value")
                if ev["kind"] == "swap_kind":
                    bump("events:swap_kind")
                if ev["kind"] == "define_builtin":
                    bump("events:define_builtin")
            elif ev["op"] == "mutate":
                bump("events:mutate")
                redefined = True
            elif ev["op"] == "setattr":
                bump("events:rebind")
                redefined = True
            if ev["op"] != "query" or i not in answers or not answers[i]:
                continue
            bump("query_points")
            if redefined:
                qp_after += 1
            prefix = [e for e in case["events"][:i] if e["op"] in ("cell", "setattr", "mutate")]
            b_full = life_b(case, prefix, ev["prog"], "full")
            b_min = life_b(case, live_events(prefix, ev["prog"]), ev["prog"], "min")
            log.append([i, answers[i], b_full == b_min])
            undefined = any(c["to"] not in ev["defined"] for n in ev["prog"]["nodes"] if n["id"] in ev["defined"] for c in n["calls"])
            if undefined:
                bump("queried_with_undefined_callee")
            for k in sorted(b_min):
                if isinstance(b_min[k], dict) or isinstance(b_full.get(k), dict):
                    bad = b_min[k] if isinstance(b_min[k], dict) else b_full.get(k)
                    viol.append(core.violation("version-query-raised", {"via": "fresh-process", "exc": bad["exc"]},
                                               {"i": i, "node": k, "exc": bad}))
                    break
                if b_full.get(k) != b_min[k]:
                    viol.append(core.violation("version-depends-on-history", {}, {"i": i, "node": k, "full": b_full.get(k), "min": b_min[k]}))
                    break
            if viol:
                break
            for nid, via, got in answers[i]:
                bump("queries")
                bump("via:" + via.split(":")[0])
                want = b_min.get(str(nid))
                if isinstance(got, dict):
                    viol.append(core.violation("version-query-raised", {"via": via.split(":")[0], "exc": got["exc"]},
                                               {"i": i, "node": nid, "via": via, "exc": got}))
                    break
                if got != want:
                    last_kind = next((e.get("kind") or e["op"] for e in reversed(case["events"][:i]) if e["op"] in ("cell", "setattr", "mutate")), None)
                    nd = ev["prog"]["nodes"][nid]
                    viol.append(core.violation("version-differs-from-fresh-process",
                                               {"via": via.split(":")[0], "recursive": bool(nd["recur"]),
                                                "explicit": nd["explicit"] is not None},
                                               {"i": i, "node": nid, "via": via, "got": got, "fresh": want, "last_event": last_kind}))
                    break
    finally:
        pass
    dg = core.digest_of(log)
    return {"violations": viol[:1], "digest": dg, "nontrivial": qp_after >= 2, "stats": stats, "steps": len(case["events"]),
            "key": dg, "sample": {"modules": case["modules"],
                                  "events": [{k: v for k, v in e.items() if k not in ("prog",)} for e in case["events"][:14]]}}


def shrink(case, same, budget_s):
    # keep headers; the final query is needed; drop other events with ddmin
    hdr = [e for e in case["events"] if e["op"] == "cell" and e["unit"][0] == "hdr"]
    rest = [e for e in case["events"] if not (e["op"] == "cell" and e["unit"][0] == "hdr")]

    def test(ev):
        c = dict(case)
        c["events"] = hdr + ev
        return same(c)
    c = dict(case)
    c["events"] = hdr + core.ddmin_list(rest, test, budget_s=budget_s, min_len=1)
    return c
