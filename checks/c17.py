"""C17 — partitions round-trip key by key and merge as an overlay of their parents (engine `calltree`)."""
import shutil

from sim import core, simfs, values, world

PROP = "C17"
LEVEL = "exploration"
BUDGET = {"quick": 300, "thorough": 1700}
NCASES = {"quick": 3000, "thorough": 40000}
RULE = ("chains p0..pk (k<=4) of memento functions returning InMemoryPartition or OnDiskPartition with 0-5 string keys (from a "
        "6-letter alphabet, so levels overlap) -> supported values (scalars, lists, dicts, numpy arrays, frames, nested "
        "partitions); p_i declares the result of p_{i-1}(x) as merge parent (or not); histories of calls of arbitrary levels, "
        "restarts and cache flushes force the parent to be fresh, read back from the cache or read back from disk; cache on/off; "
        "non-trivial = a merged level (i>=1) was called; distinct = event-log digest")
ASSUMPTIONS = ["the merge parent is obtained the documented way: by calling the parent function inside the child's body",
               "values are compared by type-aware deep equality"]
COMPONENTS = {"real": ["partition codecs, PicklePartition, InMemoryPartition, OnDiskPartition, storage backend, memory cache", "tmpfs", "fork lifetimes"],
              "stub": ["scripted partition contents (through the builtins side channel)", "uuid4, clock"]}
REACH = ["calls_with_write_fault", "passed_through_calls", "merged_calls", "parent_fresh", "parent_from_cache", "parent_from_disk", "ondisk_levels", "after_restart_served", "chains_len3plus"]

LEVELS = 5
KEYS = ["a", "b", "c", "d", "e", "f", "k#1", "C#", "x y", "\u00fc", "a.b", "p%q"]     # also keys that need escaping in a path / look like separators
VKINDS = ["none", "int", "str", "float", "list", "dict", "arr-int64", "arr-float64", "frame", "series", "none", "bytes", "date", "nested-partition", "true",
          "bare-i1", "bare-f1", "bare-true", "bare-f0", "bare-nf0", "bare-i0", "bare-dn", "bare-ts", "bare-s"]
BARE = {"bare-i1": lambda: 1, "bare-f1": lambda: 1.0, "bare-true": lambda: True, "bare-f0": lambda: 0.0, "bare-nf0": lambda: -0.0,
        "bare-i0": lambda: 0, "bare-s": lambda: "a",
        "bare-dn": lambda: __import__("datetime").datetime(2020, 1, 2, 3, 4, 5),
        "bare-ts": lambda: __import__("pandas").Timestamp("2020-01-02 03:04:05")}

PROGRAM = "import twosigma.memento as m\n" + "".join('''
@m.memento_function
def p%d(x):
    __vtrace__("p%d", x)
    return __vpart__(%d, x, %s)

@m.memento_function
def q%d(x):
    __vtrace__("q%d", x)
    return p%d(x)          # hands on, unchanged, the partition another function returned
''' % (i, i, i, "p%d(x)" % (i - 1) if i > 0 else "None", i, i, i) for i in range(LEVELS))


def gen_case(seed):
    rng = core.stream(seed, "gen")
    depth = rng.randrange(1, LEVELS + 1)
    levels = []
    for i in range(depth):
        own = {}
        for k in rng.sample(KEYS, rng.randrange(0, 5)):
            own[k] = [rng.choice(VKINDS), rng.randrange(1000)]
        levels.append({"type": rng.choice(["inmemory", "inmemory", "ondisk"]), "own": own,
                       "merge": i > 0 and rng.random() < 0.85,
                       # the mapping an in-memory partition is built from (the documentation's own example uses a defaultdict)
                       "mapping": rng.choice(["dict", "dict", "defaultdict", "ordered", "chainmap"]),
                       # the partition is returned through a KeyOverrideResult (its value objects then live under
                       # <override key>/<partition key>)
                       "override": rng.random() < 0.2,
                       # the function fills the partition's dictionary step by step, consulting the partition's own key
                       # listing on the way ("add what is not there yet"), and attaches the parent after a first listing
                       "staged": rng.random() < 0.2})
    ops = []
    for _ in range(rng.randrange(2, 12)):
        r = rng.random()
        if r < 0.12:
            ops.append(["pass", rng.randrange(depth), rng.randrange(2)])
        elif r < 0.7:
            op = ["call", rng.randrange(depth), rng.randrange(2)]
            if rng.random() < 0.12:
                # a reported I/O error at one file operation while this call's results are being stored (the runner logs
                # it and hands the value back un-memoized): whatever is stored afterwards must still read back exactly
                op.append({"fault_k": rng.randrange(1, 40), "errno": rng.choice(["ENOSPC", "EIO"])})
            ops.append(op)
        elif r < 0.85:
            ops.append(["restart"])
        else:
            ops.append(["flush"])
    ops.append(["call", depth - 1, 0])
    ops.append(["restart"])
    ops.append(["call", depth - 1, 0])
    return {"seed": seed, "cache": rng.random() < 0.6, "levels": levels, "ops": ops}


def cases(tier, seed):
    return [gen_case(core.run_seed(seed, PROP, i)) for i in range(NCASES[tier])]


def mkval(spec, x):
    kind, u = spec
    from twosigma.memento.partition import InMemoryPartition
    import numpy as np
    if kind == "none":
        return None          # a bare None: stored without any content object
    if kind == "nested-partition":
        return InMemoryPartition({"n": [u, x], "m": np.arange(3, dtype=np.int64) + u})
    if kind in BARE:
        return BARE[kind]()  # bare scalars that are == to one another but not the same value (1, 1.0, True; 0.0, -0.0; ...)
    v = values.build(kind)
    return [v, u, x] if kind not in ("frame", "series", "arr-int64", "arr-float64") else v


def expected(case, level, x):
    """overlay model: key -> value"""
    out = {}
    lv = case["levels"][level]
    if level > 0 and lv["merge"]:
        out.update(expected(case, level - 1, x))
    for k, spec in lv["own"].items():
        out[k] = mkval(spec, x)
    return out


def _segment(root, case, ops, first_index):
    def body(emit):
        import builtins
        from twosigma.memento.partition import InMemoryPartition, Partition
        from twosigma.memento.storage_filesystem import OnDiskPartition
        world.install_seams(case["seed"] + first_index)
        side = world.SideChannel()
        storage = world.make_storage("filesystem", root, cache_mb=4 if case["cache"] else None)
        world.make_env(root, storage)

        def vpart(level, x, parent):
            lv = case["levels"][level]
            if lv["type"] == "ondisk":
                p = OnDiskPartition()
                ks = sorted(lv["own"])
                if lv.get("staged") and ks:
                    # every key first gets the value of the first key, then the others are assigned their own (a key is
                    # assigned twice, and the value it held is still the value of another key)
                    for k in ks:
                        p[k] = mkval(lv["own"][ks[0]], x)
                    ks = ks[1:]
                for k in ks:
                    p[k] = mkval(lv["own"][k], x)
            else:
                import collections
                d = {k: mkval(lv["own"][k], x) for k in sorted(lv["own"])}
                mp = lv.get("mapping", "dict")
                if lv.get("staged") and mp == "dict":
                    full, d = d, {}
                    p = InMemoryPartition(d)
                    for k in sorted(full):
                        if k not in p.list_keys():
                            d[k] = full[k]
                    side.events.append(["mapping", level, "staged"])
                    mp = "staged"
                if mp == "defaultdict":
                    dd = collections.defaultdict(list)
                    dd.update(d)
                    d = dd
                    side.events.append(["mapping", level, "defaultdict"])
                elif mp == "ordered":
                    d = collections.OrderedDict(d)
                elif mp == "chainmap":
                    d = collections.ChainMap(d)
                if mp != "staged":
                    p = InMemoryPartition(d)
            if parent is not None and lv["merge"]:
                p._merge_parent = parent
                side.events.append(["parent", level, type(parent).__name__])
            if lv.get("override"):
                from twosigma.memento.result import KeyOverrideResult
                side.events.append(["override", level])
                return KeyOverrideResult(p, "ovr/L%d/x%d" % (level, x))
            return p
        builtins.__vpart__ = vpart
        mod = world.load_module("vc17", PROGRAM)
        for i, op in enumerate(ops):
            rec = {"i": first_index + i, "op": op}
            try:
                if op[0] == "flush":
                    mc = getattr(storage, "_memory_cache", None)
                    if mc is not None:
                        mc.forget_everything()
                elif op[0] in ("call", "pass"):
                    fn = getattr(mod, ("p%d" if op[0] == "call" else "q%d") % op[1])
                    side.take()
                    flt = op[3] if len(op) > 3 else None
                    if flt:
                        simfs.arm(world.store_roots(root, False))
                        simfs.set_plan({flt["fault_k"]: {"variant": "error-before", "errno": flt["errno"]}})
                    r = fn(op[2])
                    if flt:
                        rec["fault_fired"] = len(simfs.S.fired)
                        simfs.disarm()
                    tr = side.take()
                    rec["runs"] = [t[0] for t in tr if t[0] not in ("parent", "override", "mapping")]
                    rec["parents"] = [t[1:] for t in tr if t[0] == "parent"]
                    exp = expected(case, op[1], op[2])
                    chk = {"is_partition": isinstance(r, Partition), "type": type(r).__name__}
                    try:
                        chk["keys"] = sorted(r.list_keys())
                    except Exception as e:  # noqa
                        chk["keys_exc"] = world.describe_exc(e)
                    try:
                        chk["own_keys"] = sorted(r.list_keys(_include_merge_parent=False))
                    except Exception as e:  # noqa
                        chk["own_keys_exc"] = world.describe_exc(e)
                    badk = {}
                    for k in sorted(exp):
                        try:
                            v = r.get(k)
                            if not values.deep_equal(v, exp[k]):
                                badk[k] = ["differs", values.summary(v), values.summary(exp[k])]
                        except Exception as e:  # noqa
                            badk[k] = ["raised", world.describe_exc(e)]
                    chk["bad_values"] = badk
                    # each key loadable on its own from a freshly obtained partition object
                    single = {}
                    for k in sorted(exp)[:3]:
                        try:
                            r2 = fn(op[2])
                            if not values.deep_equal(r2.get(k), exp[k]):
                                single[k] = "differs"
                        except Exception as e:  # noqa
                            single[k] = world.describe_exc(e)
                    side.take()
                    chk["single"] = single
                    chk["memento"] = fn.memento(op[2]) is not None
                    rec["chk"] = chk
            except BaseException as e:  # noqa
                import traceback
                rec["op_raised"] = [type(e).__name__, str(e)[:200], traceback.format_exc()[-1200:]]
            emit(rec)
    ev, _ = core.lifetime(body)
    return ev


def execute(case):
    root = core.new_scratch("c17")
    viol = []
    stats = {}
    log = []
    merged_called = False

    def bump(k, n=1):
        stats[k] = stats.get(k, 0) + n
    try:
        segs = [[]]
        for op in case["ops"]:
            if op[0] == "restart":
                segs.append([])
            else:
                segs[-1].append(op)
        stored = set()       # (level, x) with a stored result expected
        this_life = set()
        idx = 0
        if len(case["levels"]) >= 3:
            bump("chains_len3plus")
        for si, seg in enumerate(segs):
            this_life = set()
            flushed = True
            if not seg:
                continue
            ev = _segment(root, case, seg, idx)
            idx += len(seg)
            for rec in ev:
                op = rec["op"]
                log.append([rec["i"], op, rec.get("runs"), rec.get("chk", {}).get("keys")])
                lv = case["levels"][op[1]] if op[0] in ("call", "pass") else None
                feats = {}
                if lv is not None:
                    feats = {"level_type": lv["type"], "merged": bool(op[1] > 0 and lv["merge"]),
                             "parent_type": case["levels"][op[1] - 1]["type"] if op[1] > 0 and lv["merge"] else "none"}
                if "op_raised" in rec:
                    viol.append(core.violation("call-raised", dict(feats, exc=rec["op_raised"][0]), rec))
                    break
                if op[0] == "flush":
                    this_life = set()
                    continue
                if op[0] not in ("call", "pass"):
                    continue
                passed = op[0] == "pass"
                if passed:
                    feats["passed_through"] = True
                    bump("passed_through_calls")
                key = (op[1] + (100 if passed else 0), op[2])
                chk = rec["chk"]
                exp = expected(case, op[1], op[2])
                if feats["merged"]:
                    merged_called = True
                    bump("merged_calls")
                if lv["type"] == "ondisk":
                    bump("ondisk_levels")
                # provenance of the parent as this call saw it
                prov = "none"
                if rec["parents"]:
                    pt = rec["parents"][-1][1]
                    pk = (op[1] - 1, op[2])
                    if "p%d" % (op[1] - 1) in rec["runs"]:
                        prov = "fresh"
                    elif pt == "PicklePartition":
                        prov = "from-disk"
                    else:
                        prov = "from-cache"
                    bump("parent_" + prov.replace("-", "_"))
                feats["parent_provenance"] = prov
                if rec.get("fault_fired"):
                    bump("calls_with_write_fault")
                if key in stored and rec["runs"]:
                    viol.append(core.violation("stored-result-missing", feats, {"rec": rec, "note": "body ran again although the call was stored before"}))
                    break
                if key in stored and si > 0 and key not in this_life:
                    bump("after_restart_served")
                if "keys_exc" in chk or "own_keys_exc" in chk:
                    viol.append(core.violation("list-keys-raised", feats, rec))
                    break
                if chk["keys"] != sorted(exp):
                    viol.append(core.violation("key-set-differs", feats, {"rec": rec, "expected": sorted(exp)}))
                    break
                if not passed and chk["own_keys"] != sorted(lv["own"]):
                    viol.append(core.violation("own-key-set-differs", feats, {"rec": rec, "expected": sorted(lv["own"])}))
                    break
                if chk["bad_values"]:
                    k0 = sorted(chk["bad_values"])[0]
                    viol.append(core.violation("value-" + chk["bad_values"][k0][0], dict(feats, key_origin="own" if k0 in lv["own"] else "parent"),
                                               {"rec": rec, "key": k0}))
                    break
                if chk["single"]:
                    viol.append(core.violation("key-not-loadable-on-its-own", feats, rec))
                    break
                if rec.get("fault_fired"):
                    # nothing is known about what this call (and the calls it made) managed to store
                    stored = set(k2 for k2 in stored if k2[1] != op[2])
                    continue
                if not chk["memento"]:
                    viol.append(core.violation("result-not-stored", feats, rec))
                    break
                stored.add(key)
                this_life.add(key)
                for name in rec["runs"]:      # every level whose body ran in this (fault-free) call has been stored now
                    if name[:1] == "p" and name[1:].isdigit():
                        stored.add((int(name[1:]), op[2]))
            if viol:
                break
    finally:
        shutil.rmtree(root, ignore_errors=True)
    dg = core.digest_of(log)
    return {"violations": viol[:1], "digest": dg, "nontrivial": merged_called, "stats": stats, "steps": len(log), "key": dg,
            "sample": {"cache": case["cache"], "levels": case["levels"], "ops": case["ops"]}}
