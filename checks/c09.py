"""C09 — concurrent callers: single flight per call, correct values, under every schedule (engine `sched`)."""
import shutil
import threading

from sim import core, simsched, values, world

PROP = "C09"
LEVEL = "exploration"
BUDGET = {"quick": 240, "thorough": 1700}
NCASES = {"quick": 3000, "thorough": 60000}
RULE = ("2-3 real threads, each with a script of 1-4 calls (single and call_batch) on a small DAG of memento functions, "
        "scenario {cold store, warm store + cold cache, warm cache} x {same key, different keys, mixed} x backend "
        "{filesystem, filesystem + 5 KiB cache (evictions), memory}; schedules: random pre-emption (p in 0.5%,2%,10%), "
        "PCT with d<=3 priority change points, and single-pre-emption sweeps (pre-empt at step k to thread j, then run to "
        "completion); yield points = call events in every twosigma.memento module and line events in runner_local, runner, "
        "call_stack, storage_base, storage_memory, storage_filesystem; non-trivial = at least one pre-emption or forced "
        "switch happened; distinct = distinct sequence of (thread, memento-level function entered)")
ASSUMPTIONS = ["pre-emption at line granularity in the runner/storage modules and call granularity elsewhere (CPython could switch between bytecodes of one line)",
               "user function bodies and non-memento library code are atomic steps",
               "locks are wrapped so that waiting is a scheduler decision; the locks themselves are real"]
COMPONENTS = {"real": ["twosigma.memento (all)", "real threads, real thread-local call stacks, real locks", "tmpfs"],
              "stub": ["choice of which thread runs next (seeded scheduler)", "lock waiting", "uuid4, clock"]}
REACH = ["preemptions", "forced_switches", "lock_contention", "cache_evictions", "batch_calls", "schedules_with_same_key_race"]

PROGRAM = '''
import twosigma.memento as m

@m.memento_function
def leaf(x):
    __vtrace__("leaf", x)
    return "L" * 700 + str(x)

@m.memento_function
def mid(x):
    __vtrace__("mid", x)
    return [leaf(x), leaf(x + 1)]

@m.memento_function
def f(x):
    __vtrace__("f", x)
    return "v" * 1500 + str(x)

@m.memento_function
def top(x):
    __vtrace__("top", x)
    return [mid(x), f(x)]
'''


def expect(fn, x):
    if fn == "leaf":
        return "L" * 700 + str(x)
    if fn == "mid":
        return [expect("leaf", x), expect("leaf", x + 1)]
    if fn == "f":
        return "v" * 1500 + str(x)
    if fn == "top":
        return [expect("mid", x), expect("f", x)]
    raise KeyError(fn)


def closure(fn, x):
    """distinct calls (incl. nested) behind one call"""
    if fn == "leaf" or fn == "f":
        return {(fn, x)}
    if fn == "mid":
        return {(fn, x), ("leaf", x), ("leaf", x + 1)}
    return {(fn, x)} | closure("mid", x) | closure("f", x)


def gen_case(seed, tier):
    rng = core.stream(seed, "gen")
    nthreads = rng.choice([2, 2, 3])
    keymode = rng.choice(["same", "different", "mixed"])
    scenario = rng.choice(["cold", "warm-store", "warm-cache"])
    backend = rng.choice(["fs", "fs+cache", "fs+cache", "memory"])
    if backend == "memory" and scenario == "warm-store":
        scenario = "warm-cache"
    fns = ["f", "leaf", "mid", "top"]
    threads = {}
    base = [rng.choice(fns), rng.randrange(3)]
    for t in range(nthreads):
        script = []
        for _ in range(rng.randrange(1, 4 if nthreads == 3 else 5)):
            if keymode == "same":
                fn, x = base
            elif keymode == "different":
                fn, x = rng.choice(fns), rng.randrange(3) + 10 * t
            else:
                fn, x = (base if rng.random() < 0.5 else (rng.choice(fns), rng.randrange(3)))
            if rng.random() < 0.25:
                script.append(["batch", fn, [x, rng.randrange(3), x]])
            else:
                script.append(["call", fn, x])
        threads["T%d" % t] = script
    r = rng.random()
    if r < 0.45:
        strat = {"kind": "random", "p": rng.choice([0.005, 0.02, 0.1])}
    elif r < 0.75:
        strat = {"kind": "pct", "d": rng.choice([1, 2, 3]), "horizon": rng.choice([600, 1500, 4000])}
    else:
        strat = {"kind": "sweep", "at": rng.randrange(1, 3000), "to": rng.randrange(2), "first": rng.randrange(nthreads)}
    return {"seed": seed, "backend": backend, "scenario": scenario, "keymode": keymode, "threads": threads, "strategy": strat}


def cases(tier, seed):
    out = [gen_case(core.run_seed(seed, PROP, i), tier) for i in range(NCASES[tier])]
    # systematic single-pre-emption sweeps over a few base scenarios
    stride = 7 if tier == "quick" else 1
    bases = [
        ("fs+cache", "cold", {"T0": [["call", "f", 1], ["call", "f", 2]], "T1": [["call", "f", 2], ["call", "f", 1]]}),
        ("fs+cache", "cold", {"T0": [["call", "mid", 1]], "T1": [["call", "leaf", 1], ["call", "f", 3]]}),
        ("fs+cache", "warm-store", {"T0": [["call", "f", 1], ["call", "f", 2]], "T1": [["call", "f", 2], ["call", "f", 3]]}),
        ("memory", "cold", {"T0": [["call", "top", 0]], "T1": [["batch", "leaf", [0, 1, 0]]]}),
        ("fs", "cold", {"T0": [["batch", "f", [1, 2]]], "T1": [["batch", "f", [2, 1]]]}),
    ]
    for bi, (backend, scen, threads) in enumerate(bases):
        for first in (0, 1):
            for at in range(1, 2600 if tier == "thorough" else 1400, stride):
                out.append({"seed": 7000 + bi, "backend": backend, "scenario": scen, "keymode": "sweep", "threads": threads,
                            "strategy": {"kind": "sweep", "at": at, "to": 0, "first": first}})
    return out


def _run_script(mod, script):
    res = []
    for op in script:
        try:
            if op[0] == "call":
                res.append(["ok", getattr(mod, op[1])(op[2])])
            else:
                r = getattr(mod, op[1]).call_batch([{"x": x} for x in op[2]], raise_first_exception=False)
                res.append(["ok", r])
        except simsched.SimAbort:
            raise
        except BaseException as e:  # noqa
            import traceback
            res.append(["exc", type(e).__name__, str(e)[:200], traceback.format_exc()[-1200:]])
    return res


def execute(case):
    root = core.new_scratch("c09")
    backend = case["backend"]
    kind = "memory" if backend == "memory" else "filesystem"
    cache_mb = 5.0 / 1024 if backend == "fs+cache" else None
    all_calls = set()
    for script in case["threads"].values():
        for op in script:
            for x in ([op[2]] if op[0] == "call" else op[2]):
                all_calls |= closure(op[1], x)

    def prelife(emit):
        world.install_seams(case["seed"])
        world.SideChannel()
        world.make_env(root, world.make_storage(kind, root, cache_mb=cache_mb))
        mod = world.load_module("vprog", PROGRAM)
        for script in case["threads"].values():
            _run_script(mod, script)
        emit({"pre": True})

    def body(emit):
        import twosigma.memento.runner_local as rl
        world.install_seams(case["seed"])
        side = world.SideChannel()
        storage = world.make_storage(kind, root, cache_mb=cache_mb)
        world.make_env(root, storage)
        simsched.install_lock_factory()
        rl.RLock = simsched.SimRLock
        rl._memento_fn_mutex_lock = simsched.SimRLock()
        rl._memento_fn_mutex.clear()
        mod = world.load_module("vprog", PROGRAM)
        warm = case["scenario"] != "cold"
        if case["scenario"] == "warm-cache" or (case["scenario"] == "warm-store" and kind == "memory"):
            for script in case["threads"].values():
                _run_script(mod, script)
            side.take()
        sch = simsched.Scheduler(core.stream(case["seed"], "sched"), case["strategy"])
        for name in sorted(case["threads"]):
            sch.add(name, (lambda s: (lambda: _run_script(mod, s)))(case["threads"][name]))
        finished = sch.run(wall_timeout=core.LIFETIME_TIMEOUT * 0.6)
        viol = []
        if not finished:
            raise core.HarnessError("scheduler hung (wall timeout) for case seed %r" % case["seed"])
        if sch.deadlock:
            viol.append(("deadlock", {}, {"switches": sch.switches[-6:]}))
        if sch.livelock:
            viol.append(("step-cap-exceeded", {}, {"steps": sch.steps}))
        runs = {}
        for ev in side.take():
            runs[(ev[0], ev[1])] = runs.get((ev[0], ev[1]), 0) + 1
        results = {}
        if not viol:
            for name in sorted(case["threads"]):
                t = sch.ts[name]
                if t.exc is not None:
                    viol.append(("thread-died", {"exc": type(t.exc).__name__}, {"thread": name, "exc": repr(t.exc)[:300]}))
                    continue
                out = []
                for op, r in zip(case["threads"][name], t.result or []):
                    if r[0] != "ok":
                        viol.append(("exception-escaped-to-caller", {"exc": r[1]}, {"thread": name, "op": op, "msg": r[2], "tb": r[3]}))
                        out.append(r[:2])
                        continue
                    exp = expect(op[1], op[2]) if op[0] == "call" else [expect(op[1], x) for x in op[2]]
                    if not values.deep_equal(r[1], exp):
                        viol.append(("wrong-value", {"op": op[0]}, {"thread": name, "op": op, "got": values.summary(r[1])}))
                    out.append("ok")
                results[name] = out
            for c in sorted(all_calls):
                n = runs.get(c, 0)
                want = 0 if warm else 1
                if n != want:
                    viol.append(("body-run-count", {"runs": "many" if n > want else "none", "scenario": "warm" if warm else "cold"},
                                 {"call": list(c), "runs": n, "expected": want}))
                    break
            mc = getattr(storage, "_memory_cache", None)
            if mc is not None:
                acct = sum(int(e.obj_size) for e in mc.cache.values())
                if int(mc.memory_usage) != acct:
                    viol.append(("cache-usage-counter-drift", {}, {"usage": int(mc.memory_usage), "entries": acct}))
                elif mc.memory_usage > mc.memory_cache_bytes:
                    viol.append(("cache-over-budget", {}, {"usage": int(mc.memory_usage)}))
                dq = list(mc.lru_deque)
                if sorted(dq) != sorted(mc.cache.keys()):
                    viol.append(("cache-queue-key-mismatch", {}, {"queue": len(dq), "keys": len(mc.cache), "dups": len(dq) - len(set(dq))}))
                for key, e in mc.cache.items():
                    if e.has_value:
                        fa = e.memento.invocation_metadata.fn_reference_with_args
                        exp = expect(fa.fn_reference.function_name, fa.effective_kwargs["x"])
                        if not values.deep_equal(e.value, exp):
                            viol.append(("cache-holds-wrong-value", {}, {"key": key}))
                            break
        coarse = core.digest_of(sch.coarse)
        st = dict(sch.stats)
        if mc is not None:
            st["cache_evictions"] = sum(1 for c in all_calls if not any(k.split("/")[0].split(":")[1].startswith(c[0] + "#") and
                                        e.memento.invocation_metadata.fn_reference_with_args.effective_kwargs.get("x") == c[1]
                                        for k, e in mc.cache.items()))
        st["steps"] = sch.steps
        st["batch_calls"] = sum(1 for s in case["threads"].values() for op in s if op[0] == "batch")
        emit({"viol": [[c, f, d] for c, f, d in viol], "stats": st, "results": results, "switches": sch.switches,
              "coarse": coarse, "runs": sorted([list(k) + [v] for k, v in runs.items()])})

    try:
        if case["scenario"] == "warm-store" and kind != "memory":
            core.lifetime(prelife)
        ev, _ = core.lifetime(body)
    finally:
        shutil.rmtree(root, ignore_errors=True)
    r = ev[-1]
    feats_base = {"backend": case["backend"]}
    viol = []
    for c, f, d in r["viol"][:1]:
        f = dict(f)
        f.update(feats_base)
        d = dict(d)
        d["schedule"] = r["switches"][:40]
        viol.append(core.violation(c, f, d))
    st = r["stats"]
    steps = st.pop("steps", 0)
    nontriv = (st.get("preemptions", 0) + st.get("forced_switches", 0)) > 0
    if case["keymode"] in ("same", "mixed", "sweep") and st.get("lock_contention", 0):
        st["schedules_with_same_key_race"] = 1
    dg = core.digest_of([r["results"], r["switches"], r["runs"], r["viol"]])
    return {"violations": viol, "digest": dg, "nontrivial": nontriv, "stats": st, "steps": steps, "key": r["coarse"],
            "schedule": r["switches"],
            "sample": {"backend": case["backend"], "scenario": case["scenario"], "threads": case["threads"],
                       "strategy": case["strategy"], "switches": r["switches"][:12]}}


def shrink(case, same, budget_s):
    """Re-run as an explicit replay schedule, then drop switches and script ops one at a time."""
    import time
    t0 = time.monotonic()
    res = execute(case)
    if not res["violations"]:
        return case
    cand = dict(case)
    cand["strategy"] = {"kind": "replay", "switches": res["schedule"]}
    if not same(cand):
        return case
    cur = cand

    def with_sw(sw):
        c2 = dict(cur)
        c2["strategy"] = {"kind": "replay", "switches": sw}
        return c2
    # coarse pass first: drop chunks of switches, then single ones
    sw = core.ddmin_list(cur["strategy"]["switches"], lambda cand_sw: same(with_sw(cand_sw)), budget_s=budget_s * 0.6, min_len=1)
    cur = with_sw(sw)
    i = len(cur["strategy"]["switches"])
    while i < len(cur["strategy"]["switches"]) and time.monotonic() - t0 < budget_s:
        s2 = cur["strategy"]["switches"][:i] + cur["strategy"]["switches"][i + 1:]
        c2 = dict(cur)
        c2["strategy"] = {"kind": "replay", "switches": s2}
        if same(c2):
            cur = c2
        else:
            i += 1
    for name in sorted(cur["threads"]):
        j = 0
        while j < len(cur["threads"][name]) and time.monotonic() - t0 < budget_s:
            th = dict(cur["threads"])
            th[name] = th[name][:j] + th[name][j + 1:]
            c2 = dict(cur)
            c2["threads"] = th
            if th[name] and same(c2):
                cur = c2
            else:
                j += 1
    return cur
