"""C09 — concurrent callers: single flight per call, correct values, under every schedule (engine `sched`)."""
import shutil
import threading

from sim import core, simsched, values, world

PROP = "C09"
LEVEL = "exploration"
BUDGET = {"quick": 240, "thorough": 1700}
NCASES = {"quick": 3000, "thorough": 60000}
RULE = ("2-3 real threads, each with a script of 1-4 calls (single and call_batch) on a small DAG of memento functions, "
        "scenario {cold store, warm store + cold cache, warm cache} x {same key, different keys, mixed} x backend "
        "{filesystem, filesystem + 5 KiB cache (evictions), memory}; schedules: random pre-emption (p in 0.5%,2%,10%), "
        "PCT with d<=3 priority change points, and single-pre-emption sweeps (pre-empt at step k to thread j, then run to "
        "completion); yield points = call events in every twosigma.memento module and line events in runner_local, runner, "
        "call_stack, storage_base, storage_memory, storage_filesystem; non-trivial = at least one pre-emption or forced "
        "switch happened; distinct = distinct sequence of (thread, memento-level function entered)")
ASSUMPTIONS = ["pre-emption at line granularity in the runner/storage modules and call granularity elsewhere; 15% of the sampled cases pre-empt between the bytecodes of one line in those modules, 20% add line granularity in memento.py, base.py, context.py, code_hash.py",
               "user function bodies and non-memento library code are atomic steps",
               "locks are wrapped so that waiting is a scheduler decision; the locks themselves are real"]
COMPONENTS = {"real": ["twosigma.memento (all)", "real threads, real thread-local call stacks, real locks", "tmpfs"],
              "stub": ["choice of which thread runs next (seeded scheduler)", "lock waiting", "uuid4, clock"]}
REACH = ["non_memoized_failures", "threads_under_copied_context", "post_lifetime_checks", "fan_out_cases", "granularity:opcode", "granularity:wide", "context_calls", "exception_calls", "stale_version_runs", "preemptions", "forced_switches", "lock_contention", "cache_evictions", "batch_calls", "schedules_with_same_key_race"]

PROGRAM = '''
import twosigma.memento as m
from twosigma.memento.partition import InMemoryPartition
from twosigma.memento.result import KeyOverrideResult
from twosigma.memento.resource_function import resource_function
from twosigma.memento.resource import ResourceHandle
from twosigma.memento.exception import NonMemoizedException

@resource_function(resource_type="vsim")
def vres(url):
    return ResourceHandle("vsim", url, "v-" + url[-1])

@m.memento_function
def rs(x):
    __vtrace__("rs", x)
    vres("vsim://r%d" % x)       # an external resource handle obtained by this body
    __vhint__()
    return ["rs", x]

@m.memento_function
def rtop(x):
    __vtrace__("rtop", x)
    vres("vsim://t%d" % x)
    a = rs(x)
    __vhint__()
    return [a, leaf(x)]

@m.memento_function
def nm(x):
    __vtrace__("nm", x)
    __vhint__()
    raise NonMemoizedException("nm %d" % x)      # reaches every caller, is never stored: each call runs the body

@m.memento_function
def bad(x):
    __vtrace__("bad", x)
    raise ValueError("bad %d" % x)

@m.memento_function
def catcher(x):
    __vtrace__("catcher", x)
    try:
        bad(x)
    except ValueError as e:
        return ["caught", str(e)[:5], leaf(x)]

@m.memento_function
def ko(x):
    __vtrace__("ko", x)
    return KeyOverrideResult("K" * 300 + str(x), "shared/latest")     # every argument writes the same override key

@m.memento_function
def tiny(x):
    return x

@m.memento_function
def wide(x):
    __vtrace__("wide", x)
    r = tiny.map_over_range(x=range(1300 * x))     # a fan-out over many distinct calls while this call is in flight
    __vhint__()
    return [len(r), x]

@m.memento_function
def part(x):
    __vtrace__("part", x)
    return InMemoryPartition({"a": leaf(x), "b": [x, "p"]})

@m.memento_function
def leaf(x):
    __vtrace__("leaf", x)
    return "L" * 700 + str(x)

@m.memento_function
def mid(x):
    __vtrace__("mid", x)
    a = leaf(x)
    __vhint__()
    return [a, leaf(x + 1)]

@m.memento_function
def f(x):
    __vtrace__("f", x)
    return "v" * 1500 + str(x)

@m.memento_function
def top(x):
    __vtrace__("top", x)
    a = mid(x)
    __vhint__()
    return [a, f(x)]
'''


EXTRA = '''
@m.memento_function
def extra(x):
    return x
'''


def expect(fn, x):
    if fn == "bad":
        return ExpectedExc("ValueError", "bad %d" % x)
    if fn == "catcher":
        return ["caught", ("bad %d" % x)[:5], expect("leaf", x)]
    if fn == "part":
        from twosigma.memento.partition import InMemoryPartition
        return InMemoryPartition({"a": expect("leaf", x), "b": [x, "p"]})
    if fn == "wide":
        return [1300 * x, x]
    if fn == "ko":
        return "K" * 300 + str(x)
    if fn == "leaf":
        return "L" * 700 + str(x)
    if fn == "mid":
        return [expect("leaf", x), expect("leaf", x + 1)]
    if fn == "f":
        return "v" * 1500 + str(x)
    if fn == "top":
        return [expect("mid", x), expect("f", x)]
    if fn == "nm":
        return ExpectedExc("NonMemoizedException", "nm %d" % x)
    if fn == "rs":
        return ["rs", x]
    if fn == "rtop":
        return [["rs", x], expect("leaf", x)]
    raise KeyError(fn)


def resources(fn, x):
    """urls of the resource handles the body of the call itself obtains"""
    return {"rs": ["vsim://r%d" % x], "rtop": ["vsim://t%d" % x]}.get(fn, [])


def provenance(fn, x):
    """(direct memento calls in order as (function, argument), functions invoked transitively incl. itself)"""
    if fn == "mid":
        return [["leaf", x], ["leaf", x + 1]], {"mid", "leaf"}
    if fn == "top":
        return [["mid", x], ["f", x]], {"top", "mid", "leaf", "f"}
    if fn == "catcher":
        return [["bad", x], ["leaf", x]], {"catcher", "bad", "leaf"}
    if fn == "part":
        return [["leaf", x]], {"part", "leaf"}
    if fn == "wide":
        return None, {"wide", "tiny"}
    if fn == "rtop":
        return [["rs", x], ["leaf", x]], {"rtop", "rs", "leaf"}
    return [], {fn}


class ExpectedExc:
    def __init__(self, cls, msg):
        self.cls, self.msg = cls, msg


def matches(got, exp):
    """got: ["ok", value] | ["exc", class name, message, traceback] | an exception object in a batch slot"""
    if isinstance(exp, ExpectedExc):
        if isinstance(got, BaseException):
            return type(got).__name__ == exp.cls and str(got).startswith(exp.msg)
        return False
    return not isinstance(got, BaseException) and values.deep_equal(got, exp)


def closure(fn, x, ctx=None):
    """distinct calls (incl. nested) behind one call; ctx = the context argument they run under"""
    if fn in ("leaf", "f", "bad", "wide", "ko", "rs", "nm"):      # (the fan-out of wide is not traced)
        return {(fn, x, ctx)}
    if fn == "rtop":
        return {(fn, x, ctx), ("rs", x, ctx), ("leaf", x, ctx)}
    if fn == "mid":
        return {(fn, x, ctx), ("leaf", x, ctx), ("leaf", x + 1, ctx)}
    if fn == "catcher":
        return {(fn, x, ctx), ("bad", x, ctx), ("leaf", x, ctx)}
    if fn == "part":
        return {(fn, x, ctx), ("leaf", x, ctx)}
    return {(fn, x, ctx)} | closure("mid", x, ctx) | closure("f", x, ctx)


def gen_case(seed, tier):
    rng = core.stream(seed, "gen")
    nthreads = rng.choice([2, 2, 3])
    keymode = rng.choice(["same", "different", "mixed"])
    scenario = rng.choice(["cold", "warm-store", "warm-cache"])
    backend = rng.choice(["fs", "fs+cache", "fs+cache", "memory"])
    if backend == "memory" and scenario == "warm-store":
        scenario = "warm-cache"
    fns = ["f", "leaf", "mid", "top"]
    rich = rng.random() < 0.5     # exceptions, partitions, context arguments, ignore_result
    if rich:
        fns = fns + ["bad", "catcher", "part", "ko", "ko", "rs", "rtop", "nm"]
    fan = rng.random() < 0.02     # one thread's call fans out over 1300 distinct calls while the others run
    threads = {}
    base = [rng.choice(fns), rng.randrange(3)]
    for t in range(nthreads):
        script = []
        for _ in range(rng.randrange(1, 4 if nthreads == 3 else 5)):
            if keymode == "same":
                fn, x = base
            elif keymode == "different":
                fn, x = rng.choice(fns), rng.randrange(3) + 10 * t
            else:
                fn, x = (base if rng.random() < 0.5 else (rng.choice(fns), rng.randrange(3)))
            r = rng.random()
            if r < 0.25:
                script.append(["batch", fn, [x, rng.randrange(3), x]])
            elif rich and r < 0.37:
                script.append(["ctx", fn, x, rng.randrange(2)])
            elif rich and r < 0.45:
                script.append(["ign", fn, x])
            elif rich and r < 0.55:
                script.append(["par", fn, x])     # the same call through a partial application of the function
            else:
                script.append(["call", fn, x])
        threads["T%d" % t] = script
    if fan:
        threads["T0"] = [["call", "wide", 1]] + threads["T0"][:1]
        if rng.random() < 0.6:
            threads["T1"] = threads["T1"][:1] + [["call", "wide", 1]]
    r = rng.random()
    if r < 0.45:
        strat = {"kind": "random", "p": rng.choice([0.005, 0.02, 0.1])}
    elif r < 0.75:
        strat = {"kind": "pct", "d": rng.choice([1, 2, 3]), "horizon": rng.choice([600, 1500, 4000])}
    else:
        strat = {"kind": "sweep", "at": rng.randrange(1, 3000), "to": rng.randrange(2), "first": rng.randrange(nthreads)}
    case = {"seed": seed, "backend": backend, "scenario": scenario, "keymode": keymode, "threads": threads, "strategy": strat}
    if fan:
        case["step_cap"] = 6000000
        case["backend"] = "memory"
        if scenario == "warm-store":
            case["scenario"] = "warm-cache"
        if strat["kind"] == "random":
            strat["p"] = 0.0005
    g = rng.random()
    if g < 0.15:
        case["granularity"] = "opcode"    # pre-emption between the bytecodes of one line in the runner / storage modules
        if strat["kind"] == "random":
            strat["p"] = strat["p"] / 4
        elif strat["kind"] == "pct":
            strat["horizon"] = strat["horizon"] * 6
        else:
            strat["at"] = strat["at"] * 6
    elif g < 0.35:
        case["granularity"] = "wide"      # line-level pre-emption also in memento.py, base.py, context.py, code_hash.py
        if strat["kind"] == "pct":
            strat["horizon"] = strat["horizon"] * 2
    if rng.random() < 0.15:
        case["copyctx"] = True          # the threads run under copies of the main thread's contextvars context
    if rng.random() < 0.3:
        case["stale_versions"] = True   # a definition after the program was loaded: every version is recomputed by the racing threads
    return case


def cases(tier, seed):
    out = [gen_case(core.run_seed(seed, PROP, i), tier) for i in range(NCASES[tier])]
    # systematic single-pre-emption sweeps over a few base scenarios
    stride = 7 if tier == "quick" else 1
    bases = [
        ("fs+cache", "cold", {"T0": [["call", "f", 1], ["call", "f", 2]], "T1": [["call", "f", 2], ["call", "f", 1]]}),
        ("fs+cache", "cold", {"T0": [["call", "mid", 1]], "T1": [["call", "leaf", 1], ["call", "f", 3]]}),
        ("fs+cache", "warm-store", {"T0": [["call", "f", 1], ["call", "f", 2]], "T1": [["call", "f", 2], ["call", "f", 3]]}),
        ("memory", "cold", {"T0": [["call", "top", 0]], "T1": [["batch", "leaf", [0, 1, 0]]]}),
        ("fs", "cold", {"T0": [["batch", "f", [1, 2]]], "T1": [["batch", "f", [2, 1]]]}),
        # two writers of one override key, and of one content object (equal bytes from different calls)
        ("fs", "cold", {"T0": [["call", "ko", 1]], "T1": [["call", "ko", 2]]}),
        ("fs+cache", "cold", {"T0": [["call", "catcher", 1]], "T1": [["call", "part", 1], ["call", "leaf", 1]]}),
        # a batch whose pre-check sees a call that another thread is just memoizing, and whose other elements then push
        # that entry out of the small cache
        ("fs+cache", "cold", {"T0": [["call", "f", 2]], "T1": [["batch", "f", [0, 1, 3, 2]]]}),
        # one call made plainly and through a partial application
        ("fs", "cold", {"T0": [["call", "mid", 1]], "T1": [["par", "mid", 1]]}),
        # two different partitions stored at the same time (the codec and its strategies are shared by all threads)
        ("fs", "cold", {"T0": [["call", "part", 1]], "T1": [["call", "part", 2]]}),
    ]
    # a call in flight while more than a thousand other distinct calls pass through the runner; the second caller arrives
    # at the hint placed after the fan-out (whoever starts first)
    for first in (0, 1):
        out.append({"seed": 7900 + first, "backend": "memory", "scenario": "cold", "keymode": "sweep", "step_cap": 4000000,
                    "threads": {"T0": [["call", "wide", 1]], "T1": [["call", "wide", 1]]},
                    "strategy": {"kind": "hint", "at_hint": 1, "to": 0, "first": first}})
    for bi, (backend, scen, threads) in enumerate(bases):
        for first in (0, 1):
            dense = threads.get("T1") == [["call", "part", 2]]      # (short windows inside one codec call, late in a long call)
            for at in range(1, 3300 if dense else 2600 if tier == "thorough" else 1400,
                            (3 if tier == "quick" else 1) if dense else 2 if (stride > 1 and bi == 5) else stride):
                out.append({"seed": 7000 + bi, "backend": backend, "scenario": scen, "keymode": "sweep", "threads": threads,
                            "strategy": {"kind": "sweep", "at": at, "to": 0, "first": first}})
    # two root calls, one under context arguments, in threads that run under copies of one contextvars context
    for first in (0, 1):
        for at in range(1, 2600 if tier == "thorough" else 1400, stride):
            out.append({"seed": 7100, "backend": "fs", "scenario": "cold", "keymode": "sweep", "copyctx": True,
                        "threads": {"T0": [["ctx", "mid", 1, 0]], "T1": [["call", "leaf", 2], ["call", "f", 1]]},
                        "strategy": {"kind": "sweep", "at": at, "to": 0, "first": first}})
    return out


def _run_script(mod, script):
    res = []
    for op in script:
        try:
            if op[0] == "call":
                res.append(["ok", getattr(mod, op[1])(op[2])])
            elif op[0] == "ctx":
                res.append(["ok", getattr(mod, op[1]).with_context_args({"k": op[3]})(op[2])])
            elif op[0] == "ign":
                res.append(["ok", getattr(mod, op[1]).ignore_result()(op[2])])
            elif op[0] == "par":
                res.append(["ok", getattr(mod, op[1]).partial(op[2])()])
            else:
                r = getattr(mod, op[1]).call_batch([{"x": x} for x in op[2]], raise_first_exception=False)
                res.append(["ok", r])
        except simsched.SimAbort:
            raise
        except BaseException as e:  # noqa
            import traceback
            res.append(["exc", type(e).__name__, str(e)[:200], traceback.format_exc()[-1200:], e])
    return res


def execute(case):
    root = core.new_scratch("c09")
    backend = case["backend"]
    kind = "memory" if backend == "memory" else "filesystem"
    cache_mb = 5.0 / 1024 if backend == "fs+cache" else None
    all_calls = set()
    for script in case["threads"].values():
        for op in script:
            for x in (op[2] if op[0] == "batch" else [op[2]]):
                all_calls |= closure(op[1], x, op[3] if op[0] == "ctx" else None)

    def prelife(emit):
        world.install_seams(case["seed"])
        world.SideChannel()
        world.make_env(root, world.make_storage(kind, root, cache_mb=cache_mb))
        mod = world.load_module("vprog", PROGRAM)
        for script in case["threads"].values():
            _run_script(mod, script)
        emit({"pre": True})

    def body(emit):
        import twosigma.memento.runner_local as rl
        world.install_seams(case["seed"])
        side = world.SideChannel()
        storage = world.make_storage(kind, root, cache_mb=cache_mb)
        world.make_env(root, storage)
        simsched.install_lock_factory()
        rl.RLock = simsched.SimRLock
        rl._memento_fn_mutex_lock = simsched.SimRLock()
        rl._memento_fn_mutex.clear()
        mod = world.load_module("vprog", PROGRAM)
        warm = case["scenario"] != "cold"
        if case["scenario"] == "warm-cache" or (case["scenario"] == "warm-store" and kind == "memory"):
            for script in case["threads"].values():
                _run_script(mod, script)
            side.take()
        if case.get("stale_versions"):
            world.load_module("vprog", EXTRA)
        gran = case.get("granularity", "line")
        sch = simsched.Scheduler(core.stream(case["seed"], "sched"), case["strategy"],
                                 step_cap=case.get("step_cap") or (400000 if gran == "opcode" else 120000 if gran == "wide" else 60000),
                                 line_modules=simsched.LINE_MODULES + (("memento.py", "base.py", "context.py", "code_hash.py")
                                                                       if gran == "wide" else ()),
                                 opcodes=gran == "opcode")
        if case.get("copyctx"):
            # worker threads started the way asyncio.to_thread / run_in_executor wrappers start them: each under a copy of
            # the starting thread's contextvars context, taken after that thread has made a memento call of its own
            import contextvars
            mod.leaf(7)
            side.take()
        for name in sorted(case["threads"]):
            if case.get("copyctx"):
                sch.add(name, (lambda s, cx: (lambda: cx.run(_run_script, mod, s)))(case["threads"][name], contextvars.copy_context()))
            else:
                sch.add(name, (lambda s: (lambda: _run_script(mod, s)))(case["threads"][name]))
        finished = sch.run(wall_timeout=core.LIFETIME_TIMEOUT * 0.6)
        viol = []
        if not finished:
            raise core.HarnessError("scheduler hung (wall timeout) for case seed %r" % case["seed"])
        if sch.deadlock:
            viol.append(("deadlock", {}, {"switches": sch.switches[-6:]}))
        if sch.livelock:
            viol.append(("step-cap-exceeded", {}, {"steps": sch.steps}))
        runs = {}
        for ev in side.take():
            runs[(ev[0], ev[1])] = runs.get((ev[0], ev[1]), 0) + 1
        want_runs = {}
        for (fn_, x_, ctx_) in all_calls:      # one execution per distinct call = per (function, argument, context)
            if fn_ != "nm":
                want_runs[(fn_, x_)] = want_runs.get((fn_, x_), 0) + 1
        nm_runs = {}                           # ... except for the call that is never memoized: one execution per call made
        for script in case["threads"].values():
            for op in script:
                if op[1] == "nm":
                    for x_ in (op[2] if op[0] == "batch" else [op[2]]):
                        nm_runs[("nm", x_)] = nm_runs.get(("nm", x_), 0) + 1
        results = {}
        mc = None
        if not viol:
            for name in sorted(case["threads"]):
                t = sch.ts[name]
                if t.exc is not None:
                    viol.append(("thread-died", {"exc": type(t.exc).__name__}, {"thread": name, "exc": repr(t.exc)[:300]}))
                    continue
                out = []
                for op, r in zip(case["threads"][name], t.result or []):
                    exp1 = expect(op[1], op[2]) if op[0] != "batch" else None
                    if r[0] != "ok":
                        if isinstance(exp1, ExpectedExc) and matches(r[4], exp1):
                            out.append("raised-as-expected")    # the function's own (memoized) exception, not an internal error
                            continue
                        viol.append(("exception-escaped-to-caller", {"exc": r[1]}, {"thread": name, "op": op, "msg": r[2], "tb": r[3]}))
                        out.append(r[:2])
                        continue
                    if op[0] == "batch":
                        good = len(r[1]) == len(op[2]) and all(matches(g, expect(op[1], x)) for g, x in zip(r[1], op[2]))
                    elif op[0] == "ign":
                        good = r[1] is None and not isinstance(exp1, ExpectedExc)
                    else:
                        good = matches(r[1], exp1)
                    if not good:
                        viol.append(("wrong-value", {"op": op[0]}, {"thread": name, "op": op, "got": values.summary(r[1])}))
                    out.append("ok")
                results[name] = out
            for c in sorted(nm_runs):
                if runs.get(c, 0) != nm_runs[c] and not viol:
                    viol.append(("body-run-count", {"runs": "many" if runs.get(c, 0) > nm_runs[c] else "none", "scenario": "non-memoized"},
                                 {"call": list(c), "runs": runs.get(c, 0), "expected": nm_runs[c]}))
            for c in sorted(want_runs):
                n = runs.get(c, 0)
                want = 0 if warm else want_runs[c]
                if n != want:
                    viol.append(("body-run-count", {"runs": "many" if n > want else "none", "scenario": "warm" if warm else "cold"},
                                 {"call": list(c), "runs": n, "expected": want}))
                    break
            mc = getattr(storage, "_memory_cache", None)
            if mc is not None:
                acct = sum(int(e.obj_size) for e in mc.cache.values())
                if int(mc.memory_usage) != acct:
                    viol.append(("cache-usage-counter-drift", {}, {"usage": int(mc.memory_usage), "entries": acct}))
                elif mc.memory_usage > mc.memory_cache_bytes:
                    viol.append(("cache-over-budget", {}, {"usage": int(mc.memory_usage)}))
                else:
                    # ... and honest: every entry is accounted at the library's own size estimate of what it holds (what a
                    # sequential execution records)
                    est = type(mc)._estimate_object_size
                    for key, e in sorted(mc.cache.items()):
                        real = int(est(e.value)) if e.has_value else int(est(None))
                        if int(e.obj_size) != real:
                            viol.append(("cache-entry-size-dishonest", {}, {"key": key, "accounted": int(e.obj_size), "estimate": real}))
                            break
                dq = list(mc.lru_deque)
                if sorted(dq) != sorted(mc.cache.keys()):
                    viol.append(("cache-queue-key-mismatch", {}, {"queue": len(dq), "keys": len(mc.cache), "dups": len(dq) - len(set(dq))}))
                for key, e in mc.cache.items():
                    if e.has_value:
                        fa = e.memento.invocation_metadata.fn_reference_with_args
                        exp = expect(fa.fn_reference.function_name, fa.effective_kwargs["x"])
                        if not isinstance(exp, ExpectedExc) and not values.deep_equal(e.value, exp):
                            viol.append(("cache-holds-wrong-value", {}, {"key": key}))
                            break
        coarse = core.digest_of(sch.coarse)
        st = dict(sch.stats)
        if mc is not None:
            st["cache_evictions"] = sum(1 for c in sorted(want_runs) if not any(k.split("/")[0].split(":")[1].startswith(c[0] + "#") and
                                        e.memento.invocation_metadata.fn_reference_with_args.effective_kwargs.get("x") == c[1]
                                        for k, e in mc.cache.items()))
        st["steps"] = sch.steps
        st["fan_out_cases"] = 1 if any(op[1] == "wide" for s_ in case["threads"].values() for op in s_) else 0
        st["batch_calls"] = sum(1 for s in case["threads"].values() for op in s if op[0] == "batch")
        st["context_calls"] = sum(1 for s in case["threads"].values() for op in s if op[0] == "ctx")
        st["exception_calls"] = sum(1 for s in case["threads"].values() for op in s if op[1] in ("bad", "catcher"))
        st["non_memoized_failures"] = sum(1 for s in case["threads"].values() for op in s if op[1] == "nm")
        st["stale_version_runs"] = 1 if case.get("stale_versions") else 0
        st["granularity:" + gran] = 1
        emit({"viol": [[c, f, d] for c, f, d in viol], "stats": st, "results": results, "switches": sch.switches,
              "coarse": coarse, "runs": sorted([list(k) + [v] for k, v in runs.items()])})

    def postlife(emit):
        """After the threads: a fresh process over the same store, no cache.  Every call the threads made is made once
        more, sequentially: the store must hand every later caller the correct value without executing anything - a
        memento must still read its own result (also under an override key other calls wrote to), and no call may have
        been left un-memoized.  In provenance mode the stored records are compared with the model as well."""
        world.install_seams(case["seed"] + 1)
        side = world.SideChannel()
        world.make_env(root, world.make_storage(kind, root, cache_mb=None))
        mod = world.load_module("vprog", PROGRAM)
        bad_ = []
        for (fn, x, ctx) in sorted(all_calls, key=lambda c: (c[0], c[1], -1 if c[2] is None else c[2])):
            if fn == "nm":
                continue        # never stored: a later caller executes it again, by design
            f = getattr(mod, fn)
            if ctx is not None:
                f = f.with_context_args({"k": ctx})
            side.take()
            exp = expect(fn, x)
            try:
                got = f(x)
                good = matches(got, exp)
                shown = values.summary(got)
            except BaseException as e:  # noqa
                good = isinstance(exp, ExpectedExc) and matches(e, exp)
                shown = [type(e).__name__, str(e)[:200]]
            runs = [[t[0], t[1]] for t in side.take()]
            if not good:
                bad_.append(["later-caller-wrong-value", {"fn": fn}, {"call": [fn, x, ctx], "got": shown}])
            elif runs:
                bad_.append(["later-caller-recomputed", {"fn": fn}, {"call": [fn, x, ctx], "runs": runs}])
            elif case.get("provenance"):
                mem = f.memento(x)
                inv_exp, deps_exp = provenance(fn, x)
                if mem is None:
                    bad_.append(["record-missing", {"fn": fn}, {"call": [fn, x, ctx]}])
                    continue
                im = mem.invocation_metadata
                inv = [[i.fn_reference.function_name, i.effective_kwargs.get("x")] for i in im.invocations]
                deps = set(d.function_name for d in mem.function_dependencies)
                if inv_exp is not None and inv != inv_exp:
                    bad_.append(["record-invocations-differs", {"fn": fn}, {"call": [fn, x, ctx], "got": inv, "expected": inv_exp}])
                elif [r.url for r in im.resources] != resources(fn, x):
                    bad_.append(["record-resources-differs", {"fn": fn}, {"call": [fn, x, ctx], "got": [r.url for r in im.resources],
                                                                         "expected": resources(fn, x)}])
                elif deps != deps_exp:
                    bad_.append(["record-deps-differs", {"fn": fn, "diff": "missing" if deps_exp - deps else "extra"},
                                 {"call": [fn, x, ctx], "got": sorted(deps), "expected": sorted(deps_exp)}])
        emit({"post": bad_})

    try:
        if case["scenario"] == "warm-store" and kind != "memory":
            core.lifetime(prelife)
        ev, _ = core.lifetime(body)
        post = []
        if kind != "memory" and not ev[-1]["viol"]:
            pev, _ = core.lifetime(postlife)
            post = pev[-1]["post"]
    finally:
        shutil.rmtree(root, ignore_errors=True)
    r = ev[-1]
    r["viol"] = r["viol"] + post
    r["stats"]["post_lifetime_checks"] = 1 if kind != "memory" else 0
    feats_base = {"backend": case["backend"]}
    viol = []
    for c, f, d in r["viol"][:1]:
        f = dict(f)
        f.update(feats_base)
        d = dict(d)
        d["schedule"] = r["switches"][:40]
        viol.append(core.violation(c, f, d))
    st = r["stats"]
    steps = st.pop("steps", 0)
    nontriv = (st.get("preemptions", 0) + st.get("forced_switches", 0)) > 0
    if case["keymode"] in ("same", "mixed", "sweep") and st.get("lock_contention", 0):
        st["schedules_with_same_key_race"] = 1
    if case.get("provenance"):
        st["provenance_records_checked"] = 1
    if case.get("copyctx"):
        st["threads_under_copied_context"] = 1
    dg = core.digest_of([r["results"], r["switches"], r["runs"], r["viol"]])
    return {"violations": viol, "digest": dg, "nontrivial": nontriv, "stats": st, "steps": steps, "key": r["coarse"],
            "schedule": r["switches"],
            "sample": {"backend": case["backend"], "scenario": case["scenario"], "threads": case["threads"],
                       "strategy": case["strategy"], "switches": r["switches"][:12]}}


def shrink(case, same, budget_s):
    """Re-run as an explicit replay schedule, then drop switches and script ops one at a time."""
    import time
    t0 = time.monotonic()
    res = execute(case)
    if not res["violations"]:
        return case
    cand = dict(case)
    cand["strategy"] = {"kind": "replay", "switches": res["schedule"]}
    if not same(cand):
        return case
    cur = cand

    def with_sw(sw):
        c2 = dict(cur)
        c2["strategy"] = {"kind": "replay", "switches": sw}
        return c2
    # coarse pass first: drop chunks of switches, then single ones
    sw = core.ddmin_list(cur["strategy"]["switches"], lambda cand_sw: same(with_sw(cand_sw)), budget_s=budget_s * 0.6, min_len=1)
    cur = with_sw(sw)
    i = len(cur["strategy"]["switches"])
    while i < len(cur["strategy"]["switches"]) and time.monotonic() - t0 < budget_s:
        s2 = cur["strategy"]["switches"][:i] + cur["strategy"]["switches"][i + 1:]
        c2 = dict(cur)
        c2["strategy"] = {"kind": "replay", "switches": s2}
        if same(c2):
            cur = c2
        else:
            i += 1
    for name in sorted(cur["threads"]):
        j = 0
        while j < len(cur["threads"][name]) and time.monotonic() - t0 < budget_s:
            th = dict(cur["threads"])
            th[name] = th[name][:j] + th[name][j + 1:]
            c2 = dict(cur)
            c2["threads"] = th
            if th[name] and same(c2):
                cur = c2
            else:
                j += 1
    return cur
