"""C12 — whatever was stored stays listable and readable as names and code evolve (engine `evo`, 2-3 lifetimes)."""
import importlib
import os
import shutil
import sys

from sim import core, world

PROP = "C12"
LEVEL = "exploration"
BUDGET = {"quick": 300, "thorough": 1700}
NCASES = {"quick": 2400, "thorough": 40000}
RULE = ("(a) names: cluster (default, or letters/digits . _ - + = @), module path (1-3 dotted identifiers with underscores and "
        "digits), function (identifier or Class.static), explicit version over letters, digits and . _ - + = : # @ incl. "
        "adversarial shapes '1:2', 'a#b', 'a::b', '#', ':'; the function is called, then - in the same lifetime and after a "
        "restart - called again, queried with memento(), list_mementos(), list_memoized_functions(); (b) evolutions: a caller "
        "with a pinned version and a callee; lifetime 1 stores caller(x); before lifetime 2 the callee is edited, removed, "
        "renamed, made plain or moved to another cluster; default and named clusters, with and without cache; "
        "non-trivial = every case (each has a restart); distinct = distinct (names, evolution, knobs) digest")
ASSUMPTIONS = ["cluster names are drawn without ':' and '#': with those the naming scheme itself is ambiguous ('m:f#a::b:c'), so no parser could be exact",
               "module and function names are Python identifiers", "versions are non-empty"]
COMPONENTS = {"real": ["FunctionReference naming/parsing, external-reference fallback, metadata decoding, filesystem store", "process lifetimes via fork"],
              "stub": ["generated two-function program", "uuid4, clock"]}
REACH = ["stub_lookups", "inprocess_evolutions", "names_cases", "evolution_cases", "versions_with_colon", "versions_with_hash", "default_cluster", "named_cluster",
         "external_refs_seen", "static_method_functions"]

VER_ALPHA = "abzAZ019._-+=:#@"
CL_ALPHA = "abzAZ019._-+=@"
ADVERSARIAL = ["1:2", "a#b", "a::b", "#", ":", "::", "1#2:3", "v:", ":v", "a:b:c", "x@y", "1.0+b=2", "#:#", "a::b::c:d#e",
               "1.link", "v.memento.json", "a.metadata.log", "x.versions", "..", ".hidden", "-", "_.tmp"]


def gen_ident(rng):
    s = rng.choice("abcxyzQ") + "".join(rng.choice("abc_019XY") for _ in range(rng.randrange(0, 6)))
    if s in ("as", "is", "in", "or", "if", "def", "not", "and"):
        s += "_"
    return s


def gen_case(seed):
    rng = core.stream(seed, "gen")
    cluster = None if rng.random() < 0.45 else "".join(rng.choice(CL_ALPHA) for _ in range(rng.randrange(1, 9)))
    mod = ["vq" + gen_ident(rng)] + [gen_ident(rng) for _ in range(rng.randrange(0, 3))]
    cache = rng.random() < 0.4
    if rng.random() < 0.5:
        ver = rng.choice(ADVERSARIAL) if rng.random() < 0.5 else "".join(rng.choice(VER_ALPHA) for _ in range(rng.randrange(1, 9)))
        fn = gen_ident(rng)
        static = rng.random() < 0.25
        return {"seed": seed, "kind": "names", "cluster": cluster, "module": mod, "fn": fn, "static": static, "version": ver,
                "cache": cache, "auto": rng.random() < 0.15}
    evo = rng.choice(["edited", "removed", "renamed", "made-plain", "re-clustered", "unchanged", "edited-global"])
    # the same change may first happen inside the running process, by an event that runs no decorator (a module variable is
    # re-bound, the function is deleted from its module), after the entry was already queried once there
    # (only without a memory cache: a cached Memento object is a snapshot of the moment it was decoded - its references keep
    # the flags they had then; that is not "reading stored metadata" and the statement is not applied to it, see DESIGN 9.7)
    inproc = evo in ("edited-global", "removed") and not cache and rng.random() < 0.75
    return {"seed": seed, "kind": "evolution", "cluster": cluster, "module": mod, "cache": cache, "evolution": evo, "inproc": inproc,
            "inproc_glitch": rng.random() < 0.5, "dotted_global": rng.random() < 0.4,
            "caller_version": rng.choice(["p1", "1:2", "a#b", "7"]), "callee_explicit": rng.random() < 0.4, "callee_ver_base": rng.choice(["c", "c", "1::", "a:b#", "x.link"]),
            "other_cluster": "oc" + gen_ident(rng), "nested": rng.random() < 0.4,
            # the callee is not called by name but handed over as an argument to a third (pinned) memento function: the
            # stored metadata then holds a function reference as an argument VALUE
            "fn_arg": rng.random() < 0.3}


def cases(tier, seed):
    return [gen_case(core.run_seed(seed, PROP, i)) for i in range(NCASES[tier])]


# ----------------------------------------------------------------------------- programs

def write_module(root, mod, text):
    d = os.path.join(root, "src")
    for comp in mod[:-1]:
        d = os.path.join(d, comp)
        os.makedirs(d, exist_ok=True)
        open(os.path.join(d, "__init__.py"), "a").close()
    os.makedirs(d, exist_ok=True)
    with open(os.path.join(d, mod[-1] + ".py"), "w") as f:
        f.write(text)


def deco(cluster, version):
    args = []
    if cluster is not None:
        args.append("cluster=%r" % cluster)
    if version is not None:
        args.append("version=%r" % version)
    return "@m.memento_function(%s)" % ", ".join(args) if args else "@m.memento_function"


def names_program(c):
    d = deco(c["cluster"], None if c["auto"] else c["version"])
    if c["static"]:
        return ("import twosigma.memento as m\n\nclass K:\n    @staticmethod\n    %s\n    def %s(x):\n        __vtrace__(%r, x)\n"
                "        return [\"r\", x]\n" % (d, c["fn"], c["fn"]))
    return "import twosigma.memento as m\n\n%s\ndef %s(x):\n    __vtrace__(%r, x)\n    return [\"r\", x]\n" % (d, c["fn"], c["fn"])


def cfg_module(c):
    return c["module"][:-1] + [c["module"][-1] + "_cfg"]


def write_program(root, c, edition):
    write_module(root, c["module"], evo_program(c, edition))
    if c.get("dotted_global"):
        ev = c["evolution"] if edition == 2 else "unchanged"
        write_module(root, cfg_module(c), "GV = %d\n" % (2 if ev == "edited-global" else 1))


def evo_program(c, edition):
    cl = c["cluster"]
    ev = c["evolution"] if edition == 2 else "unchanged"
    callee_cluster = c["other_cluster"] if ev == "re-clustered" else cl
    body_const = 2 if ev == "edited" else 1
    gval = 2 if ev == "edited-global" else 1
    callee_ver = None
    if c["callee_explicit"]:
        callee_ver = c.get("callee_ver_base", "c") + ("2" if ev in ("edited", "edited-global") else "1")
    lines = ["import twosigma.memento as m", "", "GV = %d" % gval, ""]
    gref = "GV"
    if c.get("dotted_global"):
        # the variable lives in a module of its own and is read through the module (a dotted name)
        lines = ["import twosigma.memento as m", "import %s as cfg" % ".".join(cfg_module(c)), ""]
        gref = "cfg.GV"
    callee_name = "callee2" if ev == "renamed" else "callee"
    if ev != "removed":
        if ev != "made-plain":
            lines.append(deco(callee_cluster, callee_ver))
        lines += ["def %s(x):" % callee_name, "    __vtrace__(\"callee\", x)", "    return [\"callee\", x, %d, %s]" % (body_const, gref), ""]
    if c["nested"]:
        # an intermediate memento function between caller and callee, unchanged in itself
        lines += [deco(cl, "n1"), "def mid(x):", "    __vtrace__(\"mid\", x)",
                  "    return [\"mid\", %s(x)]" % callee_name if ev != "removed" else "    return [\"mid\", x]", ""]
    target = "mid" if c["nested"] else callee_name
    fn_arg = c.get("fn_arg") and not c["nested"]
    if fn_arg:
        lines += [deco(cl, "a1"), "def apply(x, g):", "    __vtrace__(\"apply\", x)", "    return [\"apply\", g(x)]", ""]
    lines += [deco(cl, c["caller_version"]), "def caller(x):", "    __vtrace__(\"caller\", x)"]
    if ev == "removed" and not c["nested"]:
        lines.append("    return [\"caller\", x]")
    elif fn_arg and ev != "made-plain":
        lines.append("    return [\"caller\", apply(x, %s)]" % target)
    else:
        lines.append("    return [\"caller\", %s(x)]" % target)
    return "\n".join(lines) + "\n"


# ----------------------------------------------------------------------------- lifetimes

def _env(root, c):
    clusters = {}
    for name in (c.get("cluster"), c.get("other_cluster")):
        if name is not None:
            clusters[name] = world.make_storage("filesystem", root + "/store-" + str(abs(hash(name)) % 1000), cache_mb=1 if c["cache"] else None)
    world.make_env(root, world.make_storage("filesystem", root + "/store-default", cache_mb=1 if c["cache"] else None), clusters=clusters)


def _ops(fn, cluster, side, emit, tag, expect_exec):
    """call twice / memento / listings; every step reports outcome or exception"""
    from twosigma.memento import list_memoized_functions

    def step(name, f):
        side.take()
        try:
            r = f()
            emit({"tag": tag, "op": name, "ok": r, "runs": [t[0] for t in side.take()]})
        except BaseException as e:  # noqa
            import traceback
            emit({"tag": tag, "op": name, "exc": [type(e).__name__, str(e)[:200], traceback.format_exc()[-900:]], "runs": [t[0] for t in side.take()]})
    step("call", lambda: fn(1))
    step("call-again", lambda: fn(1))
    step("memento", lambda: _memento_summary(fn.memento(1)))
    step("stub_lookup", lambda: _stub_lookup(fn))
    step("list_mementos", lambda: sorted(_memento_summary(x)["qn"] for x in fn.list_mementos()))
    step("list_memoized_functions", lambda: sorted(r.qualified_name for r in list_memoized_functions(cluster)))


def _stub_lookup(fn):
    """For every external reference among the direct invocations of fn(1): ask the stub that stands for the vanished
    function - and a modifier clone of it - for its version and for the stored entry of that very call."""
    from twosigma.memento import FunctionReference
    mem = fn.memento(1)
    out = []
    if mem is None:
        return out
    for inv in mem.invocation_metadata.invocations:
        r = inv.fn_reference
        if not r.external:
            continue
        stub = r.memento_fn
        want = FunctionReference.parse_qualified_name(r.qualified_name)["version"]
        for how, f in (("stub", stub), ("clone", stub.force_local())):
            m2 = f.memento(*inv.args, **inv.kwargs)
            out.append([how, f.version() == want, None if m2 is None else
                        m2.invocation_metadata.fn_reference_with_args.fn_reference.qualified_name == r.qualified_name])
    return out


def _memento_summary(mem):
    if mem is None:
        return None
    fra = mem.invocation_metadata.fn_reference_with_args
    return {"qn": fra.fn_reference.qualified_name,
            "invocations": [[i.fn_reference.qualified_name, bool(i.fn_reference.external)] for i in mem.invocation_metadata.invocations],
            "deps": sorted([d.qualified_name, bool(d.external)] for d in mem.function_dependencies)}


def run_names(root, c, tag):
    def body(emit):
        from twosigma.memento import FunctionReference
        world.install_seams(c["seed"])
        side = world.SideChannel()
        _env(root, c)
        sys.path.insert(0, root + "/src")
        importlib.invalidate_caches()
        mod = importlib.import_module(".".join(c["module"]))
        fn = mod.K.__dict__[c["fn"]].__func__ if c["static"] else getattr(mod, c["fn"])
        try:
            qn = fn.fn_reference().qualified_name
            emit({"tag": tag, "op": "qualified_name", "ok": qn, "version": fn.version(),
                  "parsed": FunctionReference.parse_qualified_name(qn), "runs": []})
        except BaseException as e:  # noqa
            import traceback
            emit({"tag": tag, "op": "qualified_name", "exc": [type(e).__name__, str(e)[:200], traceback.format_exc()[-900:]], "runs": []})
            return
        _ops(fn, c["cluster"], side, emit, tag, None)
    return core.lifetime(body)[0]


def list_memoized_functions_(cluster):
    from twosigma.memento import list_memoized_functions
    return list_memoized_functions(cluster)


def run_evo(root, c, tag):
    def body(emit):
        world.install_seams(c["seed"])
        side = world.SideChannel()
        _env(root, c)
        sys.path.insert(0, root + "/src")
        importlib.invalidate_caches()
        mod = importlib.import_module(".".join(c["module"]))
        _ops(mod.caller, c["cluster"], side, emit, tag, None)
        if tag == "first" and c.get("inproc"):
            gmod = sys.modules[".".join(cfg_module(c))] if c.get("dotted_global") else mod
            if c["evolution"] == "edited-global" and c.get("inproc_glitch"):
                # first a look-up that meets a callee whose version cannot be computed at that moment (the variable it reads
                # is gone for a while); its outcome is not judged
                del gmod.GV
                try:
                    mod.caller.list_mementos()
                    list_memoized_functions_(c["cluster"])
                except BaseException:  # noqa
                    pass
            if c["evolution"] == "edited-global":
                gmod.GV = 2
            else:
                del mod.callee
            for name, f in (("memento", lambda: _memento_summary(mod.caller.memento(1))),
                            ("list_mementos", lambda: sorted(_memento_summary(x)["qn"] for x in mod.caller.list_mementos())),
                            ("memento", lambda: _memento_summary(mod.caller.memento(1)))):
                try:
                    emit({"tag": "inproc", "op": name, "ok": f(), "runs": []})
                except BaseException as e:  # noqa
                    import traceback
                    emit({"tag": "inproc", "op": name, "exc": [type(e).__name__, str(e)[:200], traceback.format_exc()[-900:]], "runs": []})
    return core.lifetime(body)[0]


def execute(c):
    root = core.new_scratch("c12")
    viol = []
    stats = {}
    log = []

    def bad(clause, feats, detail):
        viol.append(core.violation(clause, feats, detail))
    try:
        cl_feat = {"cluster": "default" if c["cluster"] is None else "named"}
        stats["default_cluster" if c["cluster"] is None else "named_cluster"] = 1
        if c["kind"] == "names":
            stats["names_cases"] = 1
            if ":" in c["version"] and not c["auto"]:
                stats["versions_with_colon"] = 1
            if "#" in c["version"] and not c["auto"]:
                stats["versions_with_hash"] = 1
            if c["static"]:
                stats["static_method_functions"] = 1
            write_module(root, c["module"], names_program(c))
            fname = ("K." + c["fn"]) if c["static"] else c["fn"]
            vshape = "auto" if c["auto"] else ("suffix" if c["version"] in ADVERSARIAL[14:] else "colon" if ":" in c["version"] else "hash" if "#" in c["version"] else "plain")
            for li, tag in enumerate(["first", "restart"]):
                ev = run_names(root, c, tag)
                log.append(ev)
                for e in ev:
                    if "exc" in e:
                        bad("operation-raised", dict(cl_feat, op=e["op"], exc=e["exc"][0], version_shape=vshape, lifetime=tag),
                            {"exc": e["exc"], "names": [c["cluster"], c["module"], fname, c["version"]]})
                        break
                    if e["op"] == "qualified_name":
                        want = {"cluster": c["cluster"], "module": ".".join(c["module"]), "function": fname,
                                "version": e["version"] if c["auto"] else c["version"]}
                        if e["parsed"] != want:
                            bad("qualified-name-not-split-back", dict(cl_feat, version_shape=vshape),
                                {"qualified_name": e["ok"], "parsed": e["parsed"], "expected": want})
                            break
                        qn = e["ok"]
                    elif e["op"] == "call":
                        exp_runs = [c["fn"]] if li == 0 else []
                        if e["ok"] != ["r", 1] or e["runs"] != exp_runs:
                            bad("stored-entry-not-found-by-call", dict(cl_feat, version_shape=vshape, lifetime=tag), {"got": e, "expected_runs": exp_runs})
                            break
                    elif e["op"] == "call-again":
                        if e["ok"] != ["r", 1] or e["runs"]:
                            bad("stored-entry-not-found-by-call", dict(cl_feat, version_shape=vshape, lifetime=tag), {"got": e})
                            break
                    elif e["op"] == "memento":
                        if e["ok"] is None or e["ok"]["qn"] != qn:
                            bad("stored-entry-not-found-by-memento-query", dict(cl_feat, version_shape=vshape, lifetime=tag), {"got": e, "qn": qn})
                            break
                    elif e["op"] == "list_mementos":
                        if e["ok"] != [qn]:
                            bad("listing-inexact", dict(cl_feat, version_shape=vshape, listing="list_mementos"), {"got": e, "qn": qn})
                            break
                    elif e["op"] == "list_memoized_functions":
                        if e["ok"] != [qn]:
                            bad("listing-inexact", dict(cl_feat, version_shape=vshape, listing="list_memoized_functions"), {"got": e, "qn": qn})
                            break
                if viol:
                    break
        else:
            stats["evolution_cases"] = 1
            evo = c["evolution"]
            write_program(root, c, 1)
            ev1 = run_evo(root, c, "first")
            log.append(ev1)
            for e in ev1:
                if "exc" in e:
                    bad("operation-raised", dict(cl_feat, op=e["op"], exc=e["exc"][0], evolution="none"), {"exc": e["exc"]})
                    break
            first = {e["op"]: e for e in ev1 if e["tag"] == "first"}
            for e in ev1:
                if e["tag"] != "inproc" or viol or "exc" in e:
                    continue
                stats["inprocess_evolutions"] = 1
                if e["op"] == "list_mementos":
                    if e["ok"] != first["list_mementos"]["ok"]:
                        bad("listing-inexact", dict(cl_feat, evolution=evo, listing="list_mementos", delivery="in-process"), {"got": e["ok"]})
                    continue
                if e["ok"] is None:
                    bad("current-entry-not-served", dict(cl_feat, evolution=evo, nested=c["nested"], op="memento", delivery="in-process"), {"got": e})
                    continue
                for q, ext in e["ok"]["invocations"] + e["ok"]["deps"]:
                    is_callee = (":callee#" in q) or q.endswith(":callee")
                    gone = is_callee and (evo == "removed" or not c["callee_explicit"])
                    if ext:
                        stats["external_refs_seen"] = stats.get("external_refs_seen", 0) + 1
                    if ext != gone:
                        bad("external-flag-wrong", dict(cl_feat, evolution=evo, expected_external=gone, delivery="in-process"),
                            {"ref": q, "external": ext, "memento": e["ok"]})
                        break
            if not viol:
                write_program(root, c, 2)
                ev2 = run_evo(root, c, "second")
                log.append(ev2)
                modname = ".".join(c["module"])
                for e in ev2:
                    if "exc" in e:
                        bad("operation-raised", dict(cl_feat, op=e["op"], exc=e["exc"][0], evolution=evo),
                            {"exc": e["exc"], "program": evo_program(c, 2)})
                        break
                    if e["op"] in ("call", "call-again"):
                        if e["ok"] != first["call"]["ok"] or e["runs"]:
                            bad("current-entry-not-served", dict(cl_feat, evolution=evo, nested=c["nested"]),
                                {"got": e, "stored": first["call"]["ok"]})
                            break
                    elif e["op"] == "memento":
                        if e["ok"] is None:
                            bad("current-entry-not-served", dict(cl_feat, evolution=evo, nested=c["nested"], op="memento"), {"got": e})
                            break
                        refs = e["ok"]["invocations"] + e["ok"]["deps"]
                        for q, ext in refs:
                            is_callee = (":callee#" in q) or q.endswith(":callee")
                            if is_callee:
                                gone = evo in ("edited", "removed", "renamed", "made-plain", "edited-global")
                                if evo == "edited-global" and c["callee_explicit"]:
                                    gone = True
                                if evo == "re-clustered":
                                    continue   # the statement does not say whether a re-clustered callee 'still exists'
                                if ext:
                                    stats["external_refs_seen"] = stats.get("external_refs_seen", 0) + 1
                                if ext != gone:
                                    bad("external-flag-wrong", dict(cl_feat, evolution=evo, expected_external=gone),
                                        {"ref": q, "external": ext, "memento": e["ok"]})
                                    break
                            elif ext:
                                bad("external-flag-wrong", dict(cl_feat, evolution=evo, expected_external=False, ref="not-callee"),
                                    {"ref": q, "external": ext})
                                break
                        if viol:
                            break
                    elif e["op"] == "stub_lookup":
                        if e["ok"]:
                            stats["stub_lookups"] = stats.get("stub_lookups", 0) + len(e["ok"])
                        wrong = [z for z in e["ok"] if z[1] is not True or z[2] is not True]
                        if wrong:
                            bad("stored-entry-not-found-through-external-stub", dict(cl_feat, evolution=evo, how=wrong[0][0]),
                                {"lookups": e["ok"], "callee_version_shape": c.get("callee_ver_base")})
                            break
                    elif e["op"] == "list_mementos":
                        if e["ok"] != first["list_mementos"]["ok"]:
                            bad("listing-inexact", dict(cl_feat, evolution=evo, listing="list_mementos"), {"got": e["ok"], "first": first["list_mementos"]["ok"]})
                            break
                    elif e["op"] == "list_memoized_functions":
                        # everything stored in lifetime 1 in the caller's cluster stays listed
                        # (a re-clustered callee is resolved to its new cluster by the listing; the statement does
                        # not say whether that counts as "still exists", so only "never raises" is asserted there)
                        if evo != "re-clustered" and not set(first["list_memoized_functions"]["ok"]) <= set(e["ok"]):
                            bad("listing-inexact", dict(cl_feat, evolution=evo, listing="list_memoized_functions"),
                                {"got": e["ok"], "first": first["list_memoized_functions"]["ok"]})
                            break
    finally:
        shutil.rmtree(root, ignore_errors=True)
    dg = core.digest_of(log)
    return {"violations": viol[:1], "digest": dg, "nontrivial": True, "stats": stats, "steps": sum(len(x) for x in log),
            "key": core.digest_of({k: v for k, v in c.items() if k != "seed"}), "sample": {k: v for k, v in c.items() if k != "seed"}}
