"""C10 — provenance is exact and independent of what was already memoized (engine `calltree`)."""
import os
import shutil

from sim import core, simfs, world
from . import calltree

PROP = "C10"
LEVEL = "exploration"
BUDGET = {"quick": 300, "thorough": 1700}
NCASES = {"quick": 2500, "thorough": 30000}
RULE = ("generated call DAGs (2-8 memento functions, fan-out <= 4) with repeated, batched (call_batch with duplicates), "
        "map_over_range, keyword-presented, ignore_result, failing-and-caught and failing-and-propagating sub-calls and "
        "file/custom resource handles; round 0 runs the root on an empty store, rounds 1-4 forget the root plus a drawn subset "
        "of the calls beneath it (the complement stays memoized, incl. memoized exceptions), optionally restart or evict, and "
        "run the root again singly or inside a batch; after every round the stored record of EVERY call in the tree is compared "
        "with the reference model; backends filesystem / filesystem+cache / memory; non-trivial = the tree has >= 2 calls and "
        ">= 1 round re-ran with a non-empty memoized subset; distinct = event-log digest")
ASSUMPTIONS = ["invocations are compared by (function, argument hash), not by positional-vs-keyword presentation",
               "the model is ~100 lines of pure Python in checks/calltree.py"]
COMPONENTS = {"real": ["runner (single + batch paths), call stack, propagate_dependencies, resource functions, storage backends", "fork lifetimes"],
              "stub": ["generated program", "uuid4, clock"]}
REACH = ["trees_with_non_memoized_failures", "rounds_with_read_faults", "concurrent_cases", "sched:provenance_records_checked", "rounds", "records_compared", "rounds_with_memoized_subcalls", "batch_root_runs", "restarts", "evictions",
         "trees_with_failing_calls", "trees_with_batches", "trees_with_resources"]


def gen_case(seed):
    rng = core.stream(seed, "gen")
    prog = calltree.gen_tree(rng, feats={"p_nomemo": 0.3})     # some failing calls raise an exception that is not to be memoized
    rounds = []
    for _ in range(rng.randrange(1, 5)):
        rounds.append({"forget_p": rng.choice([0.0, 0.3, 0.6, 1.0]), "pick": rng.randrange(1 << 30),
                       "pre": rng.choice(["none", "none", "restart", "evict"]), "how": rng.choice(["single", "single", "batch"])})
    case = {"seed": seed, "prog": prog, "x": rng.randrange(3), "rounds": rounds,
            "backend": rng.choice(["fs", "fs+cache", "memory"]), "ctx": None}
    if case["backend"] != "memory" and rng.random() < 0.3:
        # reported I/O errors while stored mementos / results are read during the re-runs (a sub-call that is memoized
        # but cannot be read is computed again: the record must not change)
        case["read_faults"] = {"p": rng.choice([0.05, 0.15, 0.4]), "max": rng.choice([1, 2, 4])}
    return case


NSCHED = {"quick": 1200, "thorough": 20000}


def sched_cases(tier, seed):
    """Provenance under concurrent callers: 'found in the store' also happens between a caller's batch pre-check and its
    look-up under the per-call mutex, when another thread memoizes the sub-call in between.  The thread scheduler of
    engine sched (checks/c09.py) runs 2-3 threads over a small DAG; afterwards the stored record of every call is
    compared with the model (direct calls in order, transitive function set)."""
    from . import c09
    out = []
    for i in range(NSCHED[tier]):
        s = core.run_seed(seed, PROP + "-sched", i)
        c = c09.gen_case(s, tier)
        if c.get("step_cap") or c["backend"] == "memory":
            c["backend"] = "fs"
            c.pop("step_cap", None)
            c["threads"] = {k: [op for op in v if op[1] != "wide"] or [["call", "top", 1]] for k, v in c["threads"].items()}
        if c["scenario"] != "cold":
            c["scenario"] = "cold"
        c["sched"] = True
        c["provenance"] = True
        out.append(c)
    # systematic single pre-emptions over two callers that share sub-calls
    stride = 5 if tier == "quick" else 1
    bases = [{"T0": [["call", "top", 1]], "T1": [["call", "mid", 1]]},
             {"T0": [["call", "catcher", 1]], "T1": [["call", "part", 1]]},
             {"T0": [["call", "top", 0]], "T1": [["batch", "leaf", [1, 0, 1]]]},
             # resource handles obtained by two threads (the wrapper of a resource function is one object for all threads)
             {"T0": [["call", "rs", 1], ["call", "rtop", 2]], "T1": [["call", "rtop", 1], ["call", "rs", 0]]}]
    for bi, threads in enumerate(bases):
        for first in (0, 1):
            for at in range(1, 4000 if tier == "thorough" else 2400, stride):
                out.append({"seed": 8100 + bi, "backend": "fs", "scenario": "cold", "keymode": "sweep", "threads": threads,
                            "strategy": {"kind": "sweep", "at": at, "to": 0, "first": first}, "sched": True, "provenance": True})
    return out


def cases(tier, seed):
    return [gen_case(core.run_seed(seed, PROP, i)) for i in range(NCASES[tier])] + sched_cases(tier, seed)


def execute_sched(case):
    from . import c09
    r = c09.execute(case)
    # only the provenance clauses are C10's; everything else is reported by C09 itself
    r["violations"] = [v for v in r["violations"] if v["clause"].startswith("record-")]
    st = {"sched:" + k: v for k, v in (r.get("stats") or {}).items() if k in ("preemptions", "lock_contention", "provenance_records_checked")}
    st["concurrent_cases"] = 1
    r["stats"] = st
    return r


def callargs(prog, i, x):
    if prog["nodes"][i]["params"] == "":
        return {}
    return {"x": x, "y": 7} if prog["nodes"][i]["params"] == "x,y" else {"x": x}


def collect_records(mod, prog, calls):
    """what the store holds for every call of the tree: key -> summary | None"""
    out = {}
    for key, rec in sorted(calls.items()):
        fn = getattr(mod, prog["nodes"][rec["node"]]["name"])
        if rec["ctx"]:
            fn = fn.with_context_args(dict(rec["ctx"]))
        try:
            mem = fn.memento(**callargs(prog, rec["node"], rec["x"]))
        except Exception as e:  # noqa
            out[key] = {"exc": world.describe_exc(e)}
            continue
        if mem is None:
            out[key] = None
            continue
        im = mem.invocation_metadata
        out[key] = {
            "invocations": [[i.fn_reference.qualified_name.split("#")[0], i.arg_hash] for i in im.invocations],
            "resources": [[r.resource_type, r.url.rsplit("/", 1)[-1], r.version] for r in im.resources],
            "deps": sorted(set(d.qualified_name for d in mem.function_dependencies)),
            "ctx": im.fn_reference_with_args.context_args or {},
            "result_type": im.result_type.name,
        }
    return out


def expected_records(mod, prog, calls, respath):
    out = {}
    for key, rec in sorted(calls.items()):
        inv = []
        for j, xv, eff in rec["invocations"]:
            fn = getattr(mod, prog["nodes"][j]["name"])
            ref = fn.fn_reference().with_args(_memento_context_args=dict(eff) if eff else None, **callargs(prog, j, xv))
            inv.append([fn.fn_reference().qualified_name.split("#")[0], ref.arg_hash])
        res = []
        for kind, idx in rec["resources"]:
            if kind == "file":
                p = "%s/res%d.txt" % (respath, idx)
                res.append(["file", "res%d.txt" % idx, str(int(round(os.path.getmtime(p) * 1000))) if os.path.exists(p) else "deleted"])
            else:
                res.append(["vsim", "r%d" % idx, "v-%d" % idx])
        out[key] = {"invocations": inv, "resources": res,
                    "deps": sorted(getattr(mod, prog["nodes"][d]["name"]).fn_reference().qualified_name for d in rec["deps"]),
                    "ctx": dict(rec["ctx"]) if rec["ctx"] else {},
                    "result_type": "exception" if rec["outcome"][0] == "exc" else "list_result"}
    return out


def run_rounds(root, case, group, calls, li):
    """group: [(round index, round spec | None)] executed in ONE process lifetime"""
    prog = case["prog"]

    def body(emit):
        world.install_seams(case["seed"] + li)
        side = world.SideChannel()
        kind = "memory" if case["backend"] == "memory" else "filesystem"
        storage = world.make_storage(kind, root, cache_mb=(6.0 / 1024) if case["backend"] == "fs+cache" else None)
        world.make_env(root, storage)
        calltree.install_helpers()
        side.table["respath"] = root + "/res"
        mod = world.load_module("vtree", calltree.render(prog))
        rootfn = getattr(mod, prog["nodes"][0]["name"])
        if case.get("ctx"):
            rootfn = rootfn.with_context_args(dict(case["ctx"]))
        for rnd_index, rnd in group:
            one(emit, mod, rootfn, side, storage, rnd_index, rnd)

    def one(emit, mod, rootfn, side, storage, rnd_index, rnd):
        rng = core.stream(rnd["pick"], "forget") if rnd else None
        forgotten = []
        if rnd:
            for key, rec in sorted(calls.items()):
                if rec["node"] == 0 or rng.random() < rnd["forget_p"]:
                    fn = getattr(mod, prog["nodes"][rec["node"]]["name"])
                    if rec["ctx"]:
                        fn = fn.with_context_args(dict(rec["ctx"]))
                    fn.forget(**callargs(prog, rec["node"], rec["x"]))
                    forgotten.append(key)
            if rnd["pre"] == "evict":
                mc = getattr(storage, "_memory_cache", None)
                if mc is not None:
                    mc.forget_everything()
        side.take()
        rf = case.get("read_faults") if rnd else None
        if rf:
            simfs.arm(world.store_roots(root, False))
            simfs.set_read_plan(p=rf["p"], max_faults=rf["max"], seed=case["seed"] + rnd_index)
        try:
            args = callargs(prog, 0, case["x"])
            if rnd and rnd["how"] == "batch":
                res = rootfn.call_batch([args, args], raise_first_exception=False)
                r = res[0]
                out = ["exc", type(r).__name__, __import__("builtins").__vmsg__(r)] if isinstance(r, BaseException) else ["ok", r]
            else:
                out = ["ok", rootfn(**args)]
        except Exception as e:  # noqa
            out = ["exc", type(e).__name__, __import__("builtins").__vmsg__(e)]
        read_faults_fired = 0
        if rf:
            read_faults_fired = len(simfs.S.read_fired)
            simfs.disarm()
        runs = [[t[0], t[1]] for t in side.take()]
        # an unrelated, ordinary top-level call afterwards: whatever the run left behind must not affect it
        try:
            pv = mod.vprobe(rnd_index)
            pm = mod.vprobe.memento(rnd_index)
            probe = ["ok", pv, None if pm is None else [(pm.invocation_metadata.fn_reference_with_args.context_args or {}),
                                                         len(pm.invocation_metadata.invocations)]]
        except Exception as e:  # noqa
            probe = ["exc", type(e).__name__, str(e)[:160]]
        side.take()
        emit({"round": rnd_index, "out": out, "runs": runs, "forgotten": forgotten, "read_faults_fired": read_faults_fired, "probe": probe,
              "records": collect_records(mod, prog, calls), "expected": expected_records(mod, prog, calls, root + "/res")})
    ev, _ = core.lifetime(body)
    return ev


def execute(case):
    if case.get("sched"):
        return execute_sched(case)
    root = core.new_scratch("c10")
    viol = []
    stats = {}
    log = []

    def bump(k, n=1):
        stats[k] = stats.get(k, 0) + n
    nontriv = False
    try:
        os.makedirs(root + "/res")
        for i in range(3):
            with open(root + "/res/res%d.txt" % i, "w") as f:
                f.write("r%d" % i)
            os.utime(root + "/res/res%d.txt" % i, (1_500_000_000 + i, 1_500_000_000 + i))
        prog = case["prog"]
        model = calltree.Model(prog)
        calls = {}
        exp_out, _ = model.run(0, case["x"], case.get("ctx"), False, calls)
        if any(n["fail_on"] for n in prog["nodes"]):
            bump("trees_with_failing_calls")
        if any(e["mode"] in ("batch", "map") for n in prog["nodes"] for e in n["edges"]):
            bump("trees_with_batches")
        if any(n["resources"] for n in prog["nodes"]):
            bump("trees_with_resources")
        li = 0
        groups = [[]]
        for ri, rnd in enumerate([None] + case["rounds"]):
            if rnd and rnd["pre"] == "restart" and case["backend"] != "memory":
                groups.append([])
                bump("restarts")
            if rnd and rnd["pre"] == "evict":
                bump("evictions")
            groups[-1].append((ri, rnd))
        results = []
        for gi, group in enumerate(groups):
            results += run_rounds(root, case, group, calls, gi)
        present = set()

        # calls that end in an exception that is not to be memoized (their own, or one passing through them): never stored,
        # executed again whenever they are reached
        nomemo = set(k for k, rec in calls.items() if rec["outcome"][0] == "exc" and rec["outcome"][1] == "VNoMemo")
        if nomemo:
            bump("trees_with_non_memoized_failures")

        def visit(key, seen=None):
            seen = set() if seen is None else seen
            if key in present or key in seen:
                return          # served from the store: nothing beneath it runs
            seen.add(key)
            if key not in nomemo:
                present.add(key)
            for j, xv, eff in calls[key]["invocations"]:
                visit(calltree.Model.key(j, xv, eff), seen)
        faulted = False      # a reported read error was injected in this or an earlier round
        for res in results:
            ri = res["round"]
            faulted = faulted or bool(res.get("read_faults_fired"))
            present -= set(res["forgotten"])
            visit(calltree.Model.key(0, case["x"], case.get("ctx")))
            rnd = ([None] + case["rounds"])[ri]
            bump("rounds")
            if res.get("read_faults_fired"):
                bump("read_faults_fired", res["read_faults_fired"])
                bump("rounds_with_read_faults")
            if rnd and rnd["how"] == "batch":
                bump("batch_root_runs")
            log.append([ri, res["out"][:2], res["runs"], res["forgotten"]])
            if rnd and len(res["forgotten"]) < len(calls):
                bump("rounds_with_memoized_subcalls")
                if len(calls) >= 2:
                    nontriv = True
            feats = {"how": rnd["how"] if rnd else "single", "round": "baseline" if ri == 0 else "rerun"}
            if res.get("probe") is not None and calltree.jsonable(res["probe"]) != ["ok", ["probe", ri], [{}, 0]]:
                viol.append(core.violation("later-unrelated-call-affected", feats, {"probe": res["probe"], "round": ri}))
                break
            want = calltree.jsonable(exp_out)
            got = calltree.jsonable(res["out"])
            if got[:2] != want[:2] and not (got[0] == "exc" and want[0] == "exc" and got[1] == want[1]):
                if faulted and "OSError" in str(got):
                    # the injected I/O error was reported to a caller (or captured by user code that turns the exceptions
                    # of its sub-calls into data): an operation hit by a fault may fail.  The outcome of this round is not
                    # judged; the records that were stored are - a storage failure must not become a call's recorded outcome
                    bump("rounds_failed_by_read_fault")
                else:
                    viol.append(core.violation("root-outcome-differs", feats, {"got": got, "expected": want, "round": ri}))
                    break
            for key in sorted(calls):
                bump("records_compared")
                r, e = res["records"].get(key), res["expected"][key]
                rec = calls[key]
                if key in nomemo:
                    if r is not None:
                        viol.append(core.violation("record-of-non-memoized-call", feats, {"call": key, "round": ri}))
                        break
                    continue
                if key not in present:
                    continue    # forgotten beneath a call that stayed memoized: legitimately absent
                if r is None:
                    if faulted:
                        continue    # a call that failed with the injected error is not recorded; the records that exist are judged
                    viol.append(core.violation("record-missing", feats, {"call": key, "round": ri}))
                    break
                if "exc" in r:
                    viol.append(core.violation("record-query-raised", dict(feats, exc=r["exc"]["type"]), {"call": key, "exc": r["exc"]}))
                    break
                for what in ("invocations", "resources", "deps", "ctx", "result_type"):
                    if r[what] != e[what]:
                        memoized_children = [k for k in calls if k not in res["forgotten"]]
                        viol.append(core.violation(
                            "record-%s-differs" % what,
                            dict(feats, diff="missing" if len(r[what]) < len(e[what]) else "extra" if len(r[what]) > len(e[what]) else "other",
                                 node_fails=rec["outcome"][0] == "exc"),
                            {"call": key, "got": r[what], "expected": e[what], "round": ri, "forgotten": res["forgotten"],
                             "memoized": memoized_children[:8]}))
                        break
                if viol:
                    break
            if viol:
                break
    finally:
        shutil.rmtree(root, ignore_errors=True)
    dg = core.digest_of(log)
    return {"violations": viol[:1], "digest": dg, "nontrivial": nontriv, "stats": stats, "steps": len(log), "key": dg,
            "sample": {"backend": case["backend"], "x": case["x"], "rounds": case["rounds"],
                       "nodes": [[n["name"], n["fail_on"], [[e["to"], e["mode"]] for e in n["edges"]]] for n in case["prog"]["nodes"]]}}


def shrink(case, same, budget_s):
    if case.get("sched"):
        from . import c09
        return c09.shrink(case, same, budget_s)
    cur = case
    i = 0
    while i < len(cur["rounds"]) and len(cur["rounds"]) > 1:      # drop rounds one at a time
        c = dict(cur)
        c["rounds"] = cur["rounds"][:i] + cur["rounds"][i + 1:]
        if same(c):
            cur = c
        else:
            i += 1
    return cur
