"""C05 — every storage backend behaves like one dictionary of memoized calls (engine `store`)."""
from sim import core
from . import storeops

PROP = "C05"
LEVEL = "exploration"
BUDGET = {"quick": 200, "thorough": 1500}
NCASES = {"quick": 2500, "thorough": 40000}
RULE = ("seeded operation histories (3-40 ops, swarm-weighted op mix over 4 function names incl. prefix names and versions "
        "'1'/'10', 4 argument values, value size classes relative to the drawn cache budget, key overrides, metadata, "
        "restarts) executed in lock-step on filesystem, filesystem+cache(2 KiB..64 MiB) and memory backends against a "
        "dictionary model; non-trivial = >= 3 ops incl. a memoize; distinct = distinct event-log digest")
ASSUMPTIONS = ["storage methods are driven directly with mementos built from real FunctionReferences (as the suite's StorageBackendTester does)",
               "metadata stored 'with the data' of a replaced or shared content object is treated as unspecified",
               "no I/O faults here (those are C08); restart = new backend object over the same directories"]
COMPONENTS = {"real": ["twosigma.memento storage backends, codecs, metadata source, memory cache", "tmpfs"],
              "stub": ["uuid4 (seeded)", "clock (virtual)", "mementos are built by the harness, not by the runner"]}
REACH = ["reads_with_held_memento", "restarts", "rememoize_live_key", "override_writes", "forgot_live", "forget_everything", "metadata_writes",
         "reads_of_live"]


def cases(tier, seed):
    out = []
    for i in range(NCASES[tier]):
        s = core.run_seed(seed, PROP, i)
        rng = core.stream(s, "gen")
        fs = {"backend": "fs", "cache_kib": None, "sep_meta": rng.random() < 0.4}
        fc = {"backend": "fs+cache", "cache_kib": storeops.BUDGETS_KIB[rng.randrange(len(storeops.BUDGETS_KIB))],
              "sep_meta": rng.random() < 0.4, "hold": rng.random() < 0.5}
        mem = {"backend": "memory", "cache_kib": None, "sep_meta": False}
        ops = storeops.gen_ops(rng, rng.randrange(3, 41), fc, "c05")
        out.append({"seed": s, "backends": [fs, fc, mem], "ops": ops})
    return out


def execute(case):
    return storeops.execute_case(case, {"dict"}, "c05", PROP)
