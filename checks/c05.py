"""C05 — every storage backend behaves like one dictionary of memoized calls (engine `store`)."""
from sim import core
from . import storeops

PROP = "C05"
LEVEL = "exploration"
BUDGET = {"quick": 200, "thorough": 1500}
NCASES = {"quick": 2500, "thorough": 40000}
RULE = ("seeded operation histories (3-40 ops, swarm-weighted op mix over 4 function names incl. prefix names and versions "
        "'1'/'10', 4 argument values, value size classes relative to the drawn cache budget, key overrides, metadata, "
        "restarts) executed in lock-step on filesystem, filesystem+cache(2 KiB..64 MiB) and memory backends against a "
        "dictionary model; non-trivial = >= 3 ops incl. a memoize; distinct = distinct event-log digest")
ASSUMPTIONS = ["storage methods are driven directly with mementos built from real FunctionReferences (as the suite's StorageBackendTester does)",
               "metadata stored 'with the data' of a replaced or shared content object is treated as unspecified",
               "no I/O faults here (those are C08); restart = new backend object over the same directories"]
COMPONENTS = {"real": ["twosigma.memento storage backends, codecs, metadata source, memory cache", "tmpfs"],
              "stub": ["uuid4 (seeded)", "clock (virtual)", "mementos are built by the harness, not by the runner"]}
REACH = ["forget_failed_with_io_error", "reads_with_held_memento", "restarts", "rememoize_live_key", "override_writes", "forgot_live", "forget_everything", "metadata_writes",
         "reads_of_live"]


def cases(tier, seed):
    out = []
    for i in range(NCASES[tier]):
        s = core.run_seed(seed, PROP, i)
        rng = core.stream(s, "gen")
        fs = {"backend": "fs", "cache_kib": None, "sep_meta": rng.random() < 0.4}
        fc = {"backend": "fs+cache", "cache_kib": storeops.BUDGETS_KIB[rng.randrange(len(storeops.BUDGETS_KIB))],
              "sep_meta": rng.random() < 0.4, "hold": rng.random() < 0.5}
        mem = {"backend": "memory", "cache_kib": None, "sep_meta": False}
        ops = storeops.gen_ops(rng, rng.randrange(3, 41), fc, "c05")
        case = {"seed": s, "backends": [fs, fc, mem], "ops": ops}
        if i % 4 == 0:
            # a fault-injecting configuration: some forget_call operations meet a reported I/O error at one of their file
            # operations and are repeated; after the successful repeat the dictionary model applies unchanged
            faults = {}
            new_ops = []
            for op in ops:
                if op[0] == "forget_call" and rng.random() < 0.6:
                    if rng.random() < 0.5:
                        # faults belong inside operations that have state in flight: make sure the call being forgotten is
                        # live and has a custom metadata record, so that the forget consists of several deletions
                        new_ops.append(["memoize", op[1], op[2], {"cls": "tiny", "n": 10, "t": "str", "u": rng.randrange(1, 6)}, None])
                        new_ops.append(["wmeta", op[1], op[2], rng.choice(storeops.META_KEYS), "%06x" % rng.randrange(1 << 24), False])
                    faults[str(len(new_ops))] = {"variant": "error-before", "k": rng.choice([1, 2, 2, 3, 3, 4, 4, 5, 6, 7, 8]),
                                                 "errno": rng.choice(["EIO", "EACCES", "ENOSPC"])}
                new_ops.append(op)
            ops = new_ops
            case["ops"] = ops
            if faults:
                case["faults"] = faults
        out.append(case)
    return out


def execute(case):
    return storeops.execute_case(case, {"dict"}, "c05", PROP)


def shrink(case, same, budget_s):
    return storeops.shrink_ops_with_faults(case, same, budget_s)
