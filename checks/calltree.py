"""Engine `calltree`: generated call trees of memento functions with scripted bodies and a reference
model of what each call returns, executes, records and under which context it runs.
Used by C10 (provenance), C15 (batch), C16 (context arguments).  DESIGN.md 3.5."""
import json

from sim import core

# ----------------------------------------------------------------------------- generation


def gen_tree(rng, n=None, feats=None):
    F = feats or {}
    n = n or rng.randrange(2, 9)
    nodes = []
    for i in range(n):
        nodes.append({"name": "n%d" % i, "fail_on": [], "edges": [], "resources": [], "params": rng.choice(["x", "x", "x,y"])})
    for i in range(1, n):
        if rng.random() < F.get("p_zero", 0.0):
            nodes[i]["params"] = ""      # a function without parameters: every call of it has the same (empty) arguments
    for i in range(n):
        nd = nodes[i]
        if i > 0 and rng.random() < F.get("p_fail", 0.2):
            nd["fail_on"] = sorted(set(rng.sample([0, 1, 2, 3], rng.randrange(1, 3))))
            if rng.random() < F.get("p_nomemo", 0.0):
                nd["fail_kind"] = "nomemo"     # an exception that is not to be memoized: raised and executed every time
        if rng.random() < F.get("p_res", 0.25):
            for _ in range(rng.randrange(1, 3)):
                nd["resources"].append({"kind": rng.choice(["file", "custom"]), "idx": rng.randrange(3)})
        kids = [j for j in range(i + 1, n)]
        rng.shuffle(kids)
        for j in kids[:rng.randrange(0, min(4, len(kids)) + 1)]:
            mode = rng.choices(["call", "catch", "ignore", "batch", "map", "ctx", "prevent", "kw"],
                               [F.get("w_call", 5), F.get("w_catch", 2), F.get("w_ignore", 1), F.get("w_batch", 1.5),
                                F.get("w_map", 0.7), F.get("w_ctx", 0), F.get("w_prevent", 0), 1])[0]
            e = {"to": j, "mode": mode, "arg": rng.choice([["x"], ["x+1"], ["const", rng.randrange(4)]])}
            if mode in ("map", "prevent") and nodes[j]["params"] == "":
                mode = e["mode"] = "call"      # (a prevented call needs arguments of its own: prevention is not part of the key)
            if mode in ("batch", "map"):
                e["args"] = [rng.randrange(4) for _ in range(rng.randrange(0 if mode == "batch" else 1, 4))]
            if mode == "ctx":
                e["ctx"] = rng.choice([{}, {"k": 1}, {"k": 2}, {"k": 1, "j": "a"}, {"k": True}, {"k": 1.0}])
            if mode == "prevent":
                # prevention is not part of the key: the prevented call gets an argument that no other edge can produce,
                # so that its result (computed from refused nested calls) is never served to an ordinary call
                e["arg"] = ["const", -(10 + 10 * i + len(nd["edges"]))]   # negative: self-recursion (x > 0 only) cannot explode if prevention fails
            if rng.random() < F.get("p_when", 0.3):
                e["when"] = sorted(set(rng.sample([0, 1, 2, 3, 4], rng.randrange(1, 4))))   # argument-dependent call structure
            nd["edges"].append(e)
        if rng.random() < F.get("p_recur", 0.15):
            # self-recursion towards a base case (x <= 0), before or after the other sub-calls
            rec = {"to": i, "mode": rng.choice(["call", "call", "catch"]), "arg": ["x-1"], "when": "positive"}
            nd["edges"].insert(rng.choice([0, len(nd["edges"])]), rec)
        if rng.random() < F.get("p_repeat", 0.25) and nd["edges"]:
            nd["edges"].append(dict(rng.choice(nd["edges"])))   # a repeated sub-call
    return {"nodes": nodes}


# ----------------------------------------------------------------------------- rendering

def _argexpr(a):
    return {"x": "x", "x+1": "x + 1", "x-1": "x - 1"}.get(a[0], str(a[1]) if a[0] == "const" else a[0])


def _call(nd_to, argexpr):
    if nd_to["params"] == "":
        return "()"
    if nd_to["params"] == "x,y":
        return "(%s, 7)" % argexpr
    return "(%s)" % argexpr


def render(prog, resource_paths=None):
    out = ["import twosigma.memento as m",
           "from twosigma.memento import file_resource",
           "from twosigma.memento.resource_function import resource_function",
           "from twosigma.memento.resource import ResourceHandle",
           "",
           "@resource_function(resource_type=\"vsim\")",
           "def vres(url):",
           "    return ResourceHandle(\"vsim\", url, \"v-\" + url[-1])",
           ""]
    for i in range(len(prog["nodes"]) - 1, -1, -1):
        nd = prog["nodes"][i]
        sig = "x" if nd["params"] == "x" else "x, y" if nd["params"] == "x,y" else ""
        if nd.get("zdef"):
            sig += ", z=10"      # a defaulted parameter that calls normally leave alone
        out.append("@m.memento_function")
        out.append("def %s(%s):" % (nd["name"], sig))
        if nd["params"] == "":
            out.append('    __vtrace__("%s", 0, sorted(locals()))' % nd["name"])
            out.append("    x = 0")
        else:
            out.append('    __vtrace__("%s", x, sorted(locals()))' % nd["name"])
        if nd.get("transient"):
            # a transient failure: the first execution in a process raises an exception that is not to be memoized
            out.append('    if x in %r and __vfirst__("%s", x):' % (tuple(nd["transient"]), nd["name"]))
            out.append('        raise __VTransient__("boom %s %%d transient" %% x)' % nd["name"])
        out.append("    r = []")
        for rs in nd["resources"]:
            if rs["kind"] == "file":
                out.append('    file_resource(__vget__("respath") + "/res%d.txt")' % rs["idx"])
            else:
                out.append('    vres("vsim://r%d")' % rs["idx"])
        for e in nd["edges"]:
            mark = len(out)
            t = prog["nodes"][e["to"]]
            a = _argexpr(e["arg"])
            tn = t["name"]
            y = ", \"y\": 7" if t["params"] == "x,y" else ""
            if e["mode"] == "call":
                out.append("    r.append(%s%s)" % (tn, _call(t, a)))
            elif e["mode"] == "kw" and t["params"] == "":
                out.append("    r.append(%s())" % tn)
            elif e["mode"] == "kw":
                out.append("    r.append(%s(x=%s%s))" % (tn, a, ", y=7" if t["params"] == "x,y" else ""))
            elif e["mode"] == "catch":
                out.append("    try:")
                out.append("        r.append(%s%s)" % (tn, _call(t, a)))
                out.append("    except Exception as e:")
                out.append('        r.append(["caught", type(e).__name__, __vmsg__(e)])')
            elif e["mode"] == "ignore":
                out.append("    r.append(%s.ignore_result()%s)" % (tn, _call(t, a)))
            elif e["mode"] == "batch":
                lst = ", ".join(('{"x": %d%s}' % (v, y)) if t["params"] else "{}" for v in e["args"])
                out.append("    r.append(__vsum__(%s.call_batch([%s], raise_first_exception=False)))" % (tn, lst))
            elif e["mode"] == "map":
                part = ".partial(y=7)" if t["params"] == "x,y" else ""
                out.append("    r.append(sorted(%s%s.map_over_range(x=%r).items()))" % (tn, part, e["args"]))
            elif e["mode"] == "ctx":
                out.append("    r.append(%s.with_context_args(%r)%s)" % (tn, e["ctx"], _call(t, a)))
            elif e["mode"] == "prevent":
                out.append("    try:")
                out.append("        r.append(%s.with_prevent_further_calls(True)%s)" % (tn, _call(t, a)))
                out.append("    except Exception as e:")
                out.append('        r.append(["caught", type(e).__name__, __vmsg__(e)])')
            if e.get("when") is not None:
                cond = "x > 0" if e["when"] == "positive" else "x in %r" % (tuple(e["when"]),)
                block = ["    " + ln for ln in out[mark:]]
                out[mark:] = ["    if %s:" % cond] + block
        if nd["fail_on"]:
            out.append("    if x in %r:" % (tuple(nd["fail_on"]),))
            out.append('        raise %s("boom %s %%d" %% x)' % ("__VNoMemo__" if nd.get("fail_kind") == "nomemo" else "ValueError", nd["name"]))
        out.append('    return ["%s", x, r%s]' % (nd["name"], ', ["z", z]' if nd.get("zdef") else ""))
        out.append("")
    out += ["@m.memento_function", "def vprobe(x):", '    return ["probe", x]', ""]     # called by nobody: an unrelated top-level call
    return "\n".join(out) + "\n"


def install_helpers():
    import builtins

    def vmsg(e):
        s = str(e)
        i = s.find("boom ")
        return s[i:].split(".")[0].split("\n")[0][:24] if i >= 0 else type(e).__name__

    def vsum(results):
        return [["exc", type(r).__name__, vmsg(r)] if isinstance(r, BaseException) else r for r in results]
    builtins.__vmsg__ = vmsg
    builtins.__vsum__ = vsum
    from twosigma.memento.exception import NonMemoizedException
    seen = set()

    def vfirst(name, x):
        if (name, x) in seen:
            return False
        seen.add((name, x))
        return True

    class VTransient(NonMemoizedException):
        pass
    class VNoMemo(NonMemoizedException):
        pass
    builtins.__vfirst__ = vfirst
    builtins.__VTransient__ = VTransient
    builtins.__VNoMemo__ = VNoMemo


# ----------------------------------------------------------------------------- reference model

class Model:
    """Un-memoized semantics of a generated tree (pure Python, no library code)."""

    def __init__(self, prog):
        self.prog = prog

    @staticmethod
    def argval(a, x):
        return x if a[0] == "x" else x + 1 if a[0] == "x+1" else x - 1 if a[0] == "x-1" else a[1]

    def run(self, i, x, ctx=None, prevent=False, calls=None, depth=0):
        """Returns (outcome, record).  outcome = ["ok", value] | ["exc", "ValueError", msg] | ["exc", "RuntimeError", ...]
        record = {"node", "x", "ctx", "invocations": [(child, x, ctx)], "resources": [...], "deps": set(node idx)}
        calls (if given) collects every call made: dict key -> record."""
        nd = self.prog["nodes"][i]
        rec = {"node": i, "x": x, "ctx": ctx, "invocations": [], "resources": [], "deps": {i}, "prevent": prevent}
        key = self.key(i, x, ctx)
        if calls is not None:
            calls.setdefault(key, rec)
        for rs in nd["resources"]:
            rec["resources"].append([rs["kind"], rs["idx"]])
        r = []
        outcome = None

        def sub(j, xv, cctx, cprev):
            if prevent:
                return ["exc", "RuntimeError", "RuntimeError"], None
            eff = cctx if cctx is not None else ctx
            o, crec = self.run(j, xv, eff, cprev, calls, depth + 1)
            rec["invocations"].append([j, xv, eff])
            rec["deps"] |= crec["deps"]
            return o, crec
        for e in nd["edges"]:
            j = e["to"]
            mode = e["mode"]
            if e.get("when") is not None:
                if (e["when"] == "positive" and x <= 0) or (e["when"] != "positive" and x not in e["when"]):
                    continue
            zero = self.prog["nodes"][j]["params"] == ""
            if mode in ("call", "kw", "catch", "ignore", "ctx", "prevent"):
                xv = 0 if zero else self.argval(e["arg"], x)
                o, _ = sub(j, xv, e.get("ctx") if mode == "ctx" else None, mode == "prevent")
                if o[0] == "exc":
                    if mode in ("catch", "prevent"):
                        r.append(["caught", o[1], o[2]])
                        continue
                    outcome = o
                    break
                r.append(None if mode == "ignore" else o[1])
            elif mode == "batch":
                if prevent and True:
                    outcome = ["exc", "RuntimeError", "RuntimeError"]
                    break
                res = []
                for xv in e["args"]:
                    xv = 0 if zero else xv
                    o, _ = sub(j, xv, None, False)
                    res.append(["exc", o[1], o[2]] if o[0] == "exc" else o[1])
                r.append(res)
            elif mode == "map":
                if prevent:
                    outcome = ["exc", "RuntimeError", "RuntimeError"]
                    break
                res = {}
                first_exc = None
                for xv in e["args"]:
                    o, _ = sub(j, xv, None, False)
                    if o[0] == "exc" and first_exc is None:
                        first_exc = o
                    res[xv] = o[1] if o[0] == "ok" else None
                if first_exc is not None:
                    outcome = first_exc
                    break
                r.append(sorted([k, v] for k, v in res.items()))
        if outcome is None:
            if x in nd["fail_on"]:
                outcome = ["exc", "VNoMemo" if nd.get("fail_kind") == "nomemo" else "ValueError", "boom %s %d" % (nd["name"], x)]
            else:
                outcome = ["ok", [nd["name"], x, r]]
        rec["outcome"] = outcome
        return outcome, rec

    @staticmethod
    def key(i, x, ctx):
        return "%d|%d|%s" % (i, x, json.dumps(ctx, sort_keys=True) if ctx else "")


def jsonable(v):
    """tuples -> lists, so that model values and library values compare equal"""
    return json.loads(json.dumps(v))
