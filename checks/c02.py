"""C02 — memoization is transparent: same outcome, body runs once per distinct call (engine `calltree`)."""
import shutil

from sim import core, values, world

PROP = "C02"
LEVEL = "exploration"
BUDGET = {"quick": 300, "thorough": 1700}
NCASES = {"quick": 3000, "thorough": 40000}
RULE = ("6 memento functions x 3 arguments whose scripted bodies return a value drawn from the documented result-type domain "
        "(54 catalogue kinds incl. NaN/inf/-0.0, empty and non-ASCII strings, aware/naive datetimes, 7 numpy dtypes in 1-d and "
        "2-d, pandas index/series/frame with plain, named and multi indexes, in-memory / nested / on-disk partitions, and "
        "list/dict nestings of them) or raise (built-in, module-level custom, constructor needing two arguments, class local "
        "to a function, NonMemoizedException subclass); histories of call (normal / ignore_result / force_local), repeat, "
        "forget, forget_all, forget_cluster, memento, restart, evict, clock jump on filesystem, filesystem+cache (4 KiB..4 MiB) and memory "
        "backends; non-trivial = >= 1 repeat call after a first call; distinct = event-log digest")
ASSUMPTIONS = ["equality is type-aware deep equality (bool != int, date != Timestamp, dtype/index compared, NaN == NaN)",
               "under ignore_result exceptions still propagate, memoized ones included (as ignore_result() documents and as a fresh exception does)"]
COMPONENTS = {"real": ["twosigma.memento runner, codecs, exception replay, storage backends, memory cache", "tmpfs", "fork lifetimes"],
              "stub": ["scripted function bodies (values come from a table through the builtins side channel)", "uuid4, clock"]}
REACH = ["first_calls", "repeat_calls", "served_after_restart", "served_after_evict", "exceptions_replayed", "forgets",
         "nonmemoized_raised", "mementos_checked", "partition_values", "duplicate_batches", "walk_histories", "forget_exceptions_recursed"]

PROGRAM = '''
import twosigma.memento as m
from twosigma.memento.exception import NonMemoizedException


class CustomErr(Exception):
    pass


class TwoArgErr(Exception):
    def __init__(self, a, b):
        super().__init__("%s|%s" % (a, b))


class NoMemo(NonMemoizedException):
    pass


def _make_local():
    class Loc(Exception):
        pass
    return Loc


LocErr = _make_local()

@@FUNCS@@

@m.memento_function
def filler(i):
    return "F" * __vget__("filler_size") + str(i)
'''.replace("@@FUNCS@@", "\n".join('''
@m.memento_function
def v%d(x):
    __vtrace__("v%d", x)
    return __vrun__("v%d", x)
''' % (i, i, i) for i in range(6)))

EXC_KINDS = ["ValueError", "KeyError", "ZeroDivisionError", "CustomErr", "TwoArgErr", "LocErr", "NoMemo", "LazyErr", "LazyErr"]
LAZY_SRC = "class LazyErr(Exception):\n    pass\n"     # lives in a module that only a running body imports
NFN, NX = 6, 3


def gen_case(seed):
    rng = core.stream(seed, "gen")
    kinds = values.kinds()
    backend = rng.choice(["fs", "fs+cache", "fs+cache", "memory"])
    cache_kib = rng.choice([4, 16, 256, 4096]) if backend == "fs+cache" else None
    specs = {}
    for f in range(NFN):
        for x in range(NX):
            r = rng.random()
            if r < 0.2:
                specs["%d,%d" % (f, x)] = {"exc": rng.choice(EXC_KINDS)}
            elif r < 0.32:
                ks = [k for k in rng.sample(kinds, rng.randrange(1, 4)) if not k.startswith("partition")]
                specs["%d,%d" % (f, x)] = {"nest": ks, "as": rng.choice(["list", "dict"])}
            else:
                specs["%d,%d" % (f, x)] = {"kind": rng.choice(kinds)}
    ops = []
    keys = [(rng.randrange(NFN), rng.randrange(NX)) for _ in range(rng.randrange(1, 5))]
    for _ in range(rng.randrange(3, 31)):
        f, x = keys[rng.randrange(len(keys))] if rng.random() < 0.85 else (rng.randrange(NFN), rng.randrange(NX))
        r = rng.random()
        if r < 0.05:
            ops.append(["batch2", f, x])      # one batch naming the same call twice
        elif r < 0.55:
            ops.append(["call", f, x, rng.choice(["normal", "normal", "normal", "ignore", "force_local"])])
        elif r < 0.65:
            ops.append(["forget", f, x])
        elif r < 0.67:
            ops.append(["forget_all", f])
        elif r < 0.69:
            ops.append(["forget_cluster"])
        elif r < 0.78:
            ops.append(["memento", f, x])
        elif r < 0.86:
            ops.append(["restart"])
        elif r < 0.94:
            ops.append(["evict"])
        else:
            ops.append(["clock_jump", rng.choice([-86400 * 400, -3600, 3600, 86400 * 365 * 30])])
    return {"seed": seed, "backend": backend, "cache_kib": cache_kib, "sep_meta": rng.random() < 0.3, "specs": specs, "ops": ops}


NWALK = {"quick": 600, "thorough": 10000}


def cases(tier, seed):
    from . import c02walk
    return [gen_case(core.run_seed(seed, PROP, i)) for i in range(NCASES[tier])] + \
        [c02walk.gen_case(core.run_seed(seed, PROP + "-walk", i)) for i in range(NWALK[tier])]


def build_value(spec):
    if "kind" in spec:
        return values.build(spec["kind"])
    if spec["as"] == "list":
        return [values.build(k) for k in spec["nest"]]
    return {k: values.build(k) for k in spec["nest"]}


def _segment(root, case, ops, ledger, first_index):
    """One lifetime. ledger: key -> {"memoized": bool}; returns events."""
    def body(emit):
        from twosigma.memento.exception import MementoException
        from twosigma.memento.metadata import ResultType
        from twosigma.memento.partition import Partition
        import builtins
        ids, clock = world.install_seams(case["seed"] + first_index)
        side = world.SideChannel()
        kind = "memory" if case["backend"] == "memory" else "filesystem"
        storage = world.make_storage(kind, root, cache_mb=(case["cache_kib"] / 1024.0) if case["cache_kib"] else None,
                                     sep_meta=case["sep_meta"])
        world.make_env(root, storage)
        side.table["filler_size"] = int((case["cache_kib"] or 4) * 1024 * 0.45)

        def vrun(name, x):
            spec = case["specs"]["%s,%d" % (name[1:], x)]
            if "exc" in spec:
                mod = __import__("sys").modules["vc02"]
                msg = "boom %s %d" % (name, x)
                k = spec["exc"]
                if k == "LazyErr":
                    import vc02lazy            # imported lazily: a process that only replays never runs this line
                    raise vc02lazy.LazyErr(msg)
                if k == "TwoArgErr":
                    raise mod.TwoArgErr(msg, "second")
                if k in ("CustomErr", "LocErr", "NoMemo"):
                    raise getattr(mod, k)(msg)
                raise getattr(builtins, k)(msg)
            return build_value(spec)
        builtins.__vrun__ = vrun
        import os as _os
        import sys as _sys
        lib = root + "/pylib"
        if not _os.path.isdir(lib):
            _os.makedirs(lib)
            with open(lib + "/vc02lazy.py", "w") as fh:
                fh.write(LAZY_SRC)
        _sys.path.insert(0, lib)
        mod = world.load_module("vc02", PROGRAM)
        for i, op in enumerate(ops):
            k = op[0]
            rec = {"i": first_index + i, "op": op}
            try:
                if k == "call":
                    fn = getattr(mod, "v%d" % op[1])
                    if op[3] == "ignore":
                        fn = fn.ignore_result()
                    elif op[3] == "force_local":
                        fn = fn.force_local()
                    side.take()
                    spec = case["specs"]["%d,%d" % (op[1], op[2])]
                    try:
                        r = fn(op[2])
                        runs = len(side.take())
                        rec["runs"] = runs
                        if "exc" in spec:
                            rec["out"] = ["returned-instead-of-raising", values.summary(r)]
                        elif op[3] == "ignore":
                            rec["out"] = ["ignored", r is None]
                        else:
                            exp = build_value(spec)
                            usable = True
                            why = None
                            try:
                                eq = values.deep_equal(r, exp)
                            except Exception as e:  # noqa  (e.g. a partition whose keys cannot be loaded)
                                eq, usable, why = False, False, world.describe_exc(e)
                            rec["out"] = ["value", eq, usable, values.summary(r) if usable and not eq else None, why,
                                          type(r).__name__, isinstance(r, Partition)]
                    except BaseException as e:  # noqa
                        runs = len(side.take())
                        rec["runs"] = runs
                        msg = "boom v%d %d" % (op[1], op[2])
                        carried = msg in str(e) or any(msg in str(a) for a in getattr(e, "args", ())) or msg in str(getattr(e, "message", ""))
                        rec["out"] = ["raised", type(e).__name__, type(e).__module__, carried, isinstance(e, MementoException),
                                      str(e)[:160] if "exc" not in spec else None]
                elif k == "batch2":
                    fn = getattr(mod, "v%d" % op[1])
                    spec = case["specs"]["%d,%d" % (op[1], op[2])]
                    side.take()
                    res = fn.call_batch([{"x": op[2]}, {"x": op[2]}], raise_first_exception=False)
                    rec["runs"] = len(side.take())
                    outs = []
                    msg = "boom v%d %d" % (op[1], op[2])
                    for r in res:
                        if isinstance(r, BaseException):
                            outs.append(["raised", type(r).__name__, msg in str(r) or any(msg in str(a) for a in getattr(r, "args", ()))])
                        elif "exc" in spec:
                            outs.append(["returned-instead-of-raising", values.summary(r)])
                        else:
                            try:
                                outs.append(["value", values.deep_equal(r, build_value(spec))])
                            except Exception as e:  # noqa
                                outs.append(["value", False, world.describe_exc(e)])
                    rec["out"] = ["batch", outs]
                elif k == "forget":
                    getattr(mod, "v%d" % op[1]).forget(op[2])
                elif k == "forget_all":
                    getattr(mod, "v%d" % op[1]).forget_all()
                elif k == "forget_cluster":
                    from twosigma.memento import forget_cluster
                    forget_cluster(None)
                elif k == "memento":
                    mem = getattr(mod, "v%d" % op[1]).memento(op[2])
                    rec["out"] = ["memento", None if mem is None else mem.invocation_metadata.result_type.name]
                    spec = case["specs"]["%d,%d" % (op[1], op[2])]
                    if "exc" not in spec:
                        rec["expected_type"] = ResultType.from_object(build_value(spec)).name
                    else:
                        rec["expected_type"] = "exception"
                elif k == "evict":
                    for j in range(4):
                        mod.filler(1000 + first_index + i * 4 + j)
                elif k == "clock_jump":
                    clock.jump(op[1])
            except BaseException as e:  # noqa
                import traceback
                rec["op_raised"] = [type(e).__name__, str(e)[:200], traceback.format_exc()[-900:]]
            emit(rec)
        emit({"vclock": clock.elapsed()})
    ev, _ = core.lifetime(body)
    return ev


def replay_class(kind):
    """class name expected when a memoized exception is replayed"""
    if kind in ("ValueError", "KeyError", "ZeroDivisionError", "CustomErr", "LazyErr"):
        return kind
    return "MementoException"


def execute(case):
    if case.get("walk"):
        from . import c02walk
        return c02walk.execute(case)
    root = core.new_scratch("c02")
    viol = []
    stats = {}
    log = []
    vclock = 0.0

    def bump(k, n=1):
        stats[k] = stats.get(k, 0) + n

    def bad(clause, feats, detail):
        detail = dict(detail) if isinstance(detail, dict) else {"detail": detail}
        detail["backend"] = [case["backend"], case["cache_kib"]]
        viol.append(core.violation(clause, dict(feats), detail))
    try:
        segs = [[]]
        for op in case["ops"]:
            if op[0] == "restart" and case["backend"] != "memory":
                segs.append([])
            elif op[0] != "restart":
                segs[-1].append(op)
        memo = {}          # (f, x) -> True when a result must be in the store
        idx = 0
        since_restart = set()
        evicted = set()
        had_repeat = False
        for si, seg in enumerate(segs):
            if not seg:
                continue
            ev = _segment(root, case, seg, memo, idx)
            idx += len(seg)
            restarted_keys = set(memo) if si > 0 else set()
            for rec in ev:
                if "vclock" in rec:
                    vclock += rec["vclock"]
                    continue
                op = rec["op"]
                log.append([rec["i"], op[0], rec.get("out"), rec.get("runs")])
                if "op_raised" in rec:
                    bad("operation-raised", {"op": op[0], "exc": rec["op_raised"][0]}, rec)
                    break
                k = op[0]
                if k == "batch2":
                    key = (op[1], op[2])
                    spec = case["specs"]["%d,%d" % key]
                    was = memo.get(key, False)
                    kindname = spec.get("kind") or ("nest:" + spec["as"] if "nest" in spec else "exc:" + spec["exc"])
                    feats = {"value": kindname.split("-")[0] if "kind" in spec else kindname, "state": "memoized" if was else "first", "op": "batch"}
                    outs = rec["out"][1]
                    bump("duplicate_batches")
                    nomemo = spec.get("exc") == "NoMemo"
                    want = 2 if nomemo else (0 if was else 1)
                    if rec["runs"] != want:
                        bad("body-run-count", feats, rec)
                        break
                    if len(outs) != 2 or any(o[0] != ("raised" if "exc" in spec else "value") for o in outs):
                        bad("batch-slot-outcome-differs", feats, rec)
                        break
                    if "exc" in spec and not all(o[2] for o in outs):
                        bad("exception-message-lost", feats, rec)
                        break
                    if "exc" not in spec and not all(o[1] for o in outs):
                        bad("returned-value-differs", feats, rec)
                        break
                    if not nomemo:
                        memo[key] = True
                    continue
                if k == "call":
                    key = (op[1], op[2])
                    spec = case["specs"]["%d,%d" % key]
                    was = memo.get(key, False)
                    out = rec["out"]
                    kindname = spec.get("kind") or ("nest:" + spec["as"] if "nest" in spec else "exc:" + spec["exc"])
                    feats = {"value": kindname.split("-")[0] if "kind" in spec else kindname,
                             "state": "memoized" if was else "first"}
                    if was:
                        bump("repeat_calls")
                        had_repeat = True
                        if key in restarted_keys:
                            bump("served_after_restart")
                        if key in evicted:
                            bump("served_after_evict")
                    else:
                        bump("first_calls")
                    want_runs = 0 if was else 1
                    if "exc" in spec:
                        ek = spec["exc"]
                        if ek == "NoMemo":
                            bump("nonmemoized_raised")
                            if rec["runs"] != 1 or out[0] != "raised" or out[1] != "NoMemo":
                                bad("non-memoized-exception-not-raised-every-time", feats, rec)
                                break
                            continue
                        if was and op[3] == "ignore" and out[0] != "raised":
                            # ignore_result documents that exceptions still propagate; a fresh one does
                            if rec["runs"] != 0:
                                bad("body-re-executed", feats, rec)
                                break
                            bad("memoized-exception-swallowed-under-ignore-result", {}, rec)
                            break
                        if out[0] != "raised":
                            bad("exception-not-raised", feats, rec)
                            break
                        if rec["runs"] != want_runs:
                            bad("body-run-count", feats, rec)
                            break
                        want_cls = (ek if ek != "LocErr" else "Loc") if not was else replay_class(ek)
                        if not was and out[1] != want_cls:
                            bad("first-call-raised-other-exception", feats, rec)
                            break
                        if was:
                            bump("exceptions_replayed")
                            if out[1] != want_cls:
                                feats["replayed_as"] = out[1]
                                bad("exception-replayed-as-wrong-class", feats, rec)
                                break
                            if not out[3]:
                                bad("exception-message-lost", feats, rec)
                                break
                        memo[key] = True
                    else:
                        if out[0] == "raised":
                            bad("call-raised", dict(feats, exc=out[1]), rec)
                            break
                        if rec["runs"] != want_runs:
                            bad("body-run-count", feats, rec)
                            break
                        if op[3] == "ignore":
                            if not out[1]:
                                bad("ignore-result-returned-a-value", feats, rec)
                                break
                        else:
                            if out[6]:
                                bump("partition_values")
                            if not out[2]:
                                bad("returned-value-not-usable", feats, rec)
                                break
                            if not out[1]:
                                bad("returned-value-differs", feats, rec)
                                break
                        memo[key] = True
                elif k == "forget":
                    memo.pop((op[1], op[2]), None)
                    bump("forgets")
                elif k == "forget_all":
                    for kk in [kk for kk in memo if kk[0] == op[1]]:
                        del memo[kk]
                    bump("forgets")
                elif k == "forget_cluster":
                    memo.clear()
                    bump("forget_cluster")
                elif k == "memento":
                    key = (op[1], op[2])
                    spec = case["specs"]["%d,%d" % key]
                    should = memo.get(key, False) and spec.get("exc") != "NoMemo"
                    bump("mementos_checked")
                    if (rec["out"][1] is not None) != bool(should):
                        bad("memento-presence", {"expected": "present" if should else "absent"}, rec)
                        break
                    if should and rec["out"][1] != rec["expected_type"]:
                        bad("recorded-result-type-mismatch", {"recorded": rec["out"][1], "expected": rec["expected_type"]}, rec)
                        break
                elif k == "evict":
                    evicted |= set(memo)
            if viol:
                break
    finally:
        shutil.rmtree(root, ignore_errors=True)
    dg = core.digest_of(log)
    return {"violations": viol[:1], "digest": dg, "nontrivial": had_repeat, "stats": stats, "steps": len(log), "vclock": vclock,
            "key": dg, "sample": {"backend": case["backend"], "cache_kib": case["cache_kib"], "ops": case["ops"][:12],
                                  "specs": dict(list(case["specs"].items())[:4])}}
