"""C07 — result blobs are content-addressed, deduplicated and immutable once referenced (engine `store`)."""
from sim import core
from . import storeops

PROP = "C07"
LEVEL = "exploration"
BUDGET = {"quick": 200, "thorough": 1500}
NCASES = {"quick": 3000, "thorough": 40000}
RULE = ("C05-style histories biased to writes: key-override writes to shared override keys (k, k/sub, j; null results that "
        "delete the override link), equal bytes produced by different functions (12% of values reuse ids 1-3), forgets of "
        "other calls, restarts; after EVERY step the whole store is scanned (hash of every object under c/, link targets, "
        "one object per hash) and every live memento is re-read through a cache-less backend; non-trivial = >=3 ops incl. "
        "a memoize; every third history additionally injects transient I/O errors (errno before an operation, error on first "
        "write, short write + errno) into some memoize operations - the operation may fail, the store must stay consistent; "
        "distinct = distinct event-log digest")
ASSUMPTIONS = ["the value stored at creation is remembered by a ledger (pickle round trip) and compared by type-aware deep equality",
               "filesystem backends only (the memory backend has no content keys)"]
COMPONENTS = {"real": ["filesystem storage backend, codecs, metadata source, memory cache", "tmpfs"],
              "stub": ["uuid4 (seeded)", "clock (virtual)", "mementos built by the harness"]}
REACH = ["reads_with_held_memento", "io_errors_injected", "memoize_failed_with_io_error", "tree_scans", "immutability_reads", "dedup_shared_objects", "override_writes", "rememoize_live_key", "forgot_live"]


def cases(tier, seed):
    out = []
    for i in range(NCASES[tier]):
        s = core.run_seed(seed, PROP, i)
        rng = core.stream(s, "gen")
        kn = storeops.gen_knobs(rng, backends=("fs", "fs+cache"))
        kn["hold"] = rng.random() < 0.3
        ops = storeops.gen_ops(rng, rng.randrange(3, 31), kn, "c07")
        case = {"seed": s, "knobs": kn, "ops": ops}
        if i % 3 == 0:
            # fault-injecting configuration: transient I/O errors (reported to the caller) inside some memoize operations
            faults = {}
            for oi, op in enumerate(ops):
                if op[0] == "memoize" and rng.random() < 0.35:
                    v = rng.choice([("error-before", {}), ("error-first-write", {}), ("short-error", {"cut": "half"}),
                                    ("short-error", {"cut": "allbut1"}), ("short-error", {"cut": "zero"})])
                    faults[str(oi)] = dict(variant=v[0], k=rng.randrange(1, 14), errno=rng.choice(["ENOSPC", "EIO", "EFBIG"]), **v[1])
            case["faults"] = faults
        out.append(case)
    return out


def execute(case):
    return storeops.execute_case(case, {"blob"}, "c07", PROP)


def shrink(case, same, budget_s):
    return storeops.shrink_ops_with_faults(case, same, budget_s)
