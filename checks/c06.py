"""C06 — the memory cache is bounded, least-recently-used and keeps honest accounts (engine `store`)."""
from sim import core
from . import storeops

PROP = "C06"
LEVEL = "exploration"
BUDGET = {"quick": 200, "thorough": 1500}
NCASES = {"quick": 2500, "thorough": 40000}
RULE = ("seeded cache-use histories (5-60 ops: memoize of tiny/third/half/exact/oversize values, lookups that fill the cache "
        "with memento-only entries, reads, is-memoized, forget call/function/everything, restarts) on filesystem+cache with "
        "budgets 2 KiB..64 MiB; after every op the LRU laws are evaluated on MemoryCache.memory_usage and the resident key "
        "set, and the FS seam counts opens under the store root during reads of resident values; non-trivial = >=3 ops incl. "
        "a memoize; distinct = distinct event-log digest")
ASSUMPTIONS = ["'memory attributed' is the library's own MemoryCache._estimate_object_size",
               "whether a bare lookup / is-memoized hit refreshes recency is left open: the LRU-order law is asserted only for pairs "
               "whose order is the same under both readings",
               "the cache may serve an evicted value from its weak-reference table while the caller holds it (not a violation)"]
COMPONENTS = {"real": ["MemoryCache, StorageBackendBase, filesystem data/metadata source", "tmpfs", "audit-hook read counter"],
              "stub": ["uuid4 (seeded)", "clock (virtual)", "mementos built by the harness"]}
REACH = ["evictions_observed", "hits_without_io", "miss_path_taken", "oversize_bypassed", "forget_everything", "forgot_live"]


def cases(tier, seed):
    out = []
    for i in range(NCASES[tier]):
        s = core.run_seed(seed, PROP, i)
        rng = core.stream(s, "gen")
        kn = storeops.gen_knobs(rng, backends=("fs+cache",))
        kn["hold"] = rng.random() < 0.25
        out.append({"seed": s, "knobs": kn, "ops": storeops.gen_ops(rng, rng.randrange(5, 61), kn, "c06")})
    return out


def execute(case):
    return storeops.execute_case(case, {"lru"}, "c06", PROP)
