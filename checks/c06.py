"""C06 — the memory cache is bounded, least-recently-used and keeps honest accounts (engine `store`)."""
from sim import core
from . import storeops

PROP = "C06"
LEVEL = "exploration"
BUDGET = {"quick": 200, "thorough": 1500}
NCASES = {"quick": 2500, "thorough": 40000}
RULE = ("seeded cache-use histories (5-60 ops: memoize of tiny/third/half/exact/oversize values, lookups that fill the cache "
        "with memento-only entries, reads, is-memoized, forget call/function/everything, restarts) on filesystem+cache with "
        "budgets 2 KiB..64 MiB; after every op the LRU laws are evaluated on MemoryCache.memory_usage and the resident key "
        "set, and the FS seam counts opens under the store root during reads of resident values; non-trivial = >=3 ops incl. "
        "a memoize; distinct = distinct event-log digest")
ASSUMPTIONS = ["'memory attributed' is the library's own MemoryCache._estimate_object_size",
               "whether a bare lookup / is-memoized hit refreshes recency is left open: the LRU-order law is asserted only for pairs "
               "whose order is the same under both readings",
               "the cache may serve an evicted value from its weak-reference table while the caller holds it (not a violation)"]
COMPONENTS = {"real": ["MemoryCache, StorageBackendBase, filesystem data/metadata source", "tmpfs", "audit-hook read counter"],
              "stub": ["uuid4 (seeded)", "clock (virtual)", "mementos built by the harness"]}
REACH = ["allocation_failures_injected", "reads_with_held_memento", "evictions_observed", "hits_without_io", "miss_path_taken", "oversize_bypassed", "forget_everything", "forgot_live"]


def cases(tier, seed):
    out = []
    for i in range(NCASES[tier]):
        s = core.run_seed(seed, PROP, i)
        rng = core.stream(s, "gen")
        kn = storeops.gen_knobs(rng, backends=("fs+cache",))
        kn["hold"] = rng.random() < 0.25
        ops = storeops.gen_ops(rng, rng.randrange(5, 61), kn, "c06")
        budget = kn["cache_kib"] * 1024
        if budget <= 70000 and rng.random() < 0.2:
            # recency must survive a forget_function of ANOTHER function: two entries, the older-written one read last, a third
            # function's entry forgotten, then insertions that need room - the entry read last must outlive the other
            sc = storeops.size_classes(budget)
            fa, fb, fc = rng.sample(["fa#1", "fb#2", "fab#1", "fa#10"], 3)
            u = 900000 + i * 10
            mk = lambda f, x, cls, k: ["memoize", f, x, {"t": "str", "n": sc[cls], "u": u + k, "cls": cls}, None]
            script = [mk(fa, 1, "third", 1), mk(fb, 1, "third", 2), mk(fc, 1, "tiny", 3), ["read", fa, 1], ["forget_fn", fc],
                      mk(fc, 2, "third", 4), mk(fc, 3, "third", 5), ["read", fa, 1]]
            k = rng.randrange(len(ops) + 1)
            ops[k:k] = script
        if rng.random() < 0.15:
            # a failing allocation inside a cache insertion (the defensive copy of a DataFrame): afterwards the accounts must
            # still be honest
            for op in ops:
                if op[0] == "memoize" and op[3].get("t") == "df" and rng.random() < 0.5:
                    op[3]["alloc_fail"] = True
            k = rng.randrange(len(ops) + 1)
            ops[k:k] = [["memoize", "fa#1", 2, {"t": "df", "n": 400, "u": 700000 + i, "cls": "typed", "alloc_fail": True}, None],
                        ["memoize", "fb#2", 2, {"t": "str", "n": 10, "u": 700001 + i, "cls": "tiny"}, None], ["read", "fb#2", 2]]
        out.append({"seed": s, "knobs": kn, "ops": ops})
    return out


def execute(case):
    return storeops.execute_case(case, {"lru"}, "c06", PROP)


# ----------------------------------------------------------------------------- exhaustive part: MemoryCache driven directly

EX_KEYS = 3
EX_SIZES = {"tiny": 40, "third": 330, "half": 500, "exact": 968, "over": 1100}   # payloads; budget 1 KiB, str overhead 56
EX_BUDGET_KIB = 1


def ex_ops():
    ops = []
    for k in range(EX_KEYS):
        for s in EX_SIZES:
            ops.append(["put", k, s])
        ops += [["putm", k], ["read", k], ["is", k], ["get", k], ["forget_call", k]]
    ops += [["forget_fn", 0], ["forget_fn", 1], ["forget_all"]]
    return ops


def _ex_case(prefixes):
    return {"seed": 1, "mode": "exhaustive", "prefixes": prefixes}


def _exec_exhaustive(case):
    """Expand every given op prefix by every op on a directly driven MemoryCache; returns new abstract states."""
    import shutil as _sh
    from sim import world as _w
    root = core.new_scratch("c06x")

    def body(emit):
        import datetime
        from twosigma.memento.storage_base import MemoryCache
        from twosigma.memento.metadata import Memento, InvocationMetadata, ResultType
        _w.install_seams(1)
        W = storeops.World(root, {"backend": "fs", "cache_kib": None, "sep_meta": False})
        fns = [W.fns["fa#1"], W.fns["fa#1"], W.fns["fab#1"]]     # keys 0,1 share a function; key 2 another one
        xs = [0, 1, 0]
        est = MemoryCache._estimate_object_size

        def mem(k, val):
            fra = fns[k].fn_reference().with_args(xs[k])
            return Memento(time=datetime.datetime(2020, 1, 1, tzinfo=datetime.timezone.utc),
                           invocation_metadata=InvocationMetadata(fn_reference_with_args=fra, invocations=[], resources=[],
                                                                  runtime=datetime.timedelta(seconds=1), result_type=ResultType.from_object(val)),
                           function_dependencies={fra.fn_reference}, runner={"type": "local"}, correlation_id="c", content_key=None)

        def ckey(k):
            return fns[k].fn_reference().qualified_name + "/" + fns[k].fn_reference().with_args(xs[k]).arg_hash
        budget = EX_BUDGET_KIB * 1024
        out = {"states": {}, "viol": None, "transitions": 0}
        u = [0]

        def run(seq):
            """returns (cache, model info) or raises AssertionError(law)"""
            mc = MemoryCache(EX_BUDGET_KIB / 1024.0)
            t = 0
            certain, possible, fits, stored = {}, {}, {}, {}
            for op in seq:
                t += 1
                pre = {k: e.has_value for k, e in mc.cache.items()}
                kind = op[0]
                if kind == "put":
                    u[0] += 1
                    val = "%07d" % u[0] + "s" * EX_SIZES[op[2]]
                    mc.put(mem(op[1], val), val, has_result=True)
                    key = ckey(op[1])
                    stored[key] = val
                    if est(val) > budget:
                        fits[key] = False
                        certain.pop(key, None)
                        possible.pop(key, None)
                        assert key not in mc.cache, "cache-oversize-or-stale-resident"
                    else:
                        fits[key] = True
                        certain[key] = possible[key] = t
                        assert key in mc.cache and mc.cache[key].has_value and mc.cache[key].value == val, "cache-latest-write-not-resident"
                elif kind == "putm":
                    key = ckey(op[1])
                    if key in stored and key not in mc.cache:     # what a look-up that misses the cache does
                        mc.put(mem(op[1], stored[key]), None, has_result=False)
                        certain[key] = possible[key] = t
                        fits.setdefault(key, True)
                elif kind == "read":
                    key = ckey(op[1])
                    if key in stored:
                        try:
                            v = mc.read_result(mem(op[1], stored[key]))
                            assert v == stored[key], "cache-served-stale-value"
                            certain[key] = possible[key] = t
                        except KeyError:
                            val = stored[key]                      # miss: the backend loads and offers the value
                            mc.put(mem(op[1], val), val, has_result=True)
                            if est(val) > budget:
                                fits[key] = False
                                certain.pop(key, None)
                                possible.pop(key, None)
                                assert key not in mc.cache or not mc.cache[key].has_value, "cache-oversize-or-stale-resident"
                            else:
                                fits[key] = True
                                certain[key] = possible[key] = t
                                assert key in mc.cache and mc.cache[key].has_value, "cache-read-fill-not-resident"
                elif kind == "is":
                    key = ckey(op[1])
                    r = mc.is_memoized(fns[op[1]].fn_reference(), fns[op[1]].fn_reference().with_args(xs[op[1]]).arg_hash)
                    if key in pre:
                        assert r, "cache-is-memoized-false-for-resident"
                        possible[key] = t
                elif kind == "get":
                    key = ckey(op[1])
                    g = mc.get_mementos([fns[op[1]].fn_reference().with_args(xs[op[1]]).fn_reference_with_arg_hash()])[0]
                    assert (g is not None) == (key in pre), "cache-get-presence"
                    if key in pre:
                        possible[key] = t
                elif kind == "forget_call":
                    key = ckey(op[1])
                    mc.forget_call(fns[op[1]].fn_reference().with_args(xs[op[1]]).fn_reference_with_arg_hash())
                    for d in (certain, possible, fits, stored):
                        d.pop(key, None)
                    assert key not in mc.cache, "cache-holds-forgotten-entries"
                elif kind == "forget_fn":
                    f = fns[0] if op[1] == 0 else fns[2]
                    mc.forget_function(f.fn_reference())
                    gone = [ckey(k) for k in range(EX_KEYS) if fns[k] is f]
                    for key in gone:
                        for d in (certain, possible, fits, stored):
                            d.pop(key, None)
                        assert key not in mc.cache, "cache-holds-forgotten-entries"
                elif kind == "forget_all":
                    mc.forget_everything()
                    for d in (certain, possible, fits, stored):
                        d.clear()
                    assert not mc.cache, "cache-holds-forgotten-entries"
                # laws after every op
                assert mc.memory_usage <= budget, "cache-over-budget"
                acct = sum(int(e.obj_size) for e in mc.cache.values())
                assert int(mc.memory_usage) == acct, "cache-usage-counter-drift"
                real = sum(int(est(e.value)) if e.has_value else int(est(None)) for e in mc.cache.values())
                assert real == acct, "cache-entry-size-dishonest"
                assert sorted(mc.lru_deque) == sorted(mc.cache), "cache-queue-key-mismatch"
                if not stored:
                    assert mc.memory_usage == 0 and not mc.cache, "cache-usage-not-zero-after-forget"
                for a in mc.cache:
                    for b, cb in certain.items():
                        assert not (b not in mc.cache and fits.get(b) and cb > possible.get(a, 0)), "cache-evicted-more-recent-entry"
            return mc, stored

        def abstract(mc, stored):
            names = {ckey(k): k for k in range(EX_KEYS)}
            def cls(e):
                if not e.has_value:
                    return "m"
                n = len(e.value) - 7
                return [s for s, v in EX_SIZES.items() if v == n][0]
            return json.dumps([[names[k], cls(mc.cache[k])] for k in mc.lru_deque] + [sorted(names[k] for k in stored)])
        import json
        ops = ex_ops()
        for prefix in case["prefixes"]:
            for op in ops:
                seq = prefix + [op]
                out["transitions"] += 1
                try:
                    mc, stored = run(seq)
                except AssertionError as e:
                    out["viol"] = [str(e), seq]
                    break
                st = abstract(mc, stored)
                if st not in out["states"]:
                    out["states"][st] = seq
            if out["viol"]:
                break
        emit(out)
    try:
        ev, _ = core.lifetime(body, timeout=600)
    finally:
        _sh.rmtree(root, ignore_errors=True)
    return ev[-1]


_orig_execute = execute
_orig_cases = cases


def cases(tier, seed):
    return _orig_cases(tier, seed) + [{"seed": 1, "mode": "exhaustive-closure", "max_states": 4000 if tier == "quick" else 200000}]


def execute(case):
    if case.get("mode") != "exhaustive-closure":
        return _orig_execute(case)
    # breadth-first closure over abstract cache states (resident keys in recency order x size class, stored set)
    seen = {}
    frontier = [[]]
    transitions = 0
    viol = []
    depth = 0
    while frontier and len(seen) < case["max_states"] and not viol:
        depth += 1
        nxt = []
        for i in range(0, len(frontier), 40):
            r = _exec_exhaustive(_ex_case(frontier[i:i + 40]))
            transitions += r["transitions"]
            if r["viol"]:
                viol.append(core.violation(r["viol"][0], {"mode": "exhaustive"}, {"ops": r["viol"][1]}))
                break
            for st, seq in r["states"].items():
                if st not in seen:
                    seen[st] = seq
                    nxt.append(seq)
        frontier = nxt
    closed = not frontier and not viol
    stats = {"exhaustive_states": len(seen), "exhaustive_transitions": transitions, "exhaustive_depth": depth,
             "exhaustive_closed": 1 if closed else 0}
    dg = core.digest_of(sorted(seen))
    return {"violations": viol, "digest": dg, "nontrivial": True, "stats": stats, "steps": transitions, "key": dg,
            "evaluations": transitions,
            "sample": {"mode": "exhaustive-closure", "keys": EX_KEYS, "sizes": EX_SIZES, "budget_kib": EX_BUDGET_KIB,
                       "states": len(seen), "closed": closed, "deepest_sequence": max(seen.values(), key=len) if seen else []}}


def coverage_extra(tier, stats):
    return {"exhaustive": False,
            "explanation": "sampled histories through the backend plus a breadth-first closure of MemoryCache driven directly over "
                           "3 keys x 5 size classes x 22 operations: %d abstract states, %d transitions, closed=%s" % (
                               stats.get("exhaustive_states", 0), stats.get("exhaustive_transitions", 0), bool(stats.get("exhaustive_closed")))}
