"""C01 — memoized results are never stale with respect to code and data changes (engine `evo`)."""
from sim import core
from . import evo

PROP = "C01"
LEVEL = "exploration"
BUDGET = {"quick": 300, "thorough": 1700}
NCASES = {"quick": 1500, "thorough": 20000}
RULE = ("generated packages (3-9 memento/plain functions over 1-3 modules; constants, nested code, set/tuple constants, "
        "f-strings, positional and keyword-only defaults, globals of supported types, bare/module-attribute/alias/hidden "
        "call edges, recursion, explicit versions, salts) x histories of 1-8 edits (constants, defaults, globals rebind / "
        "in-place mutation, add/remove/retarget/insert call edges, memento<->plain swaps, salt, explicit-version bumps) "
        "delivered cross-process (files rewritten, fresh lifetime, same store) or in-process (cell re-execution of one def "
        "or of the whole module, attribute rebinding, in-place mutation); after every edit auto-versioned functions are "
        "called plainly or through call/ignore_result/force_local/partial/with_context_args and compared with a sibling "
        "lifetime running the same texts with a pass-through decorator; non-trivial = at least one edit followed by a "
        "call; distinct = distinct event-log digest")
ASSUMPTIONS = ["user discipline: an edit inside the closure of an explicitly versioned function also bumps that version",
               "aliases of a redefined function are re-bound (as a user re-running the cell would)",
               "the reference is real Python executing the same source units, not a model of Python",
               "fork()ed lifetimes share one hash seed (hash-seed variation is C03's subject)"]
COMPONENTS = {"real": ["twosigma.memento (all)", "CPython import system / exec of cells", "filesystem store on tmpfs", "process lifetimes via fork"],
              "stub": ["generated user program", "uuid4, clock"]}
REACH = ["mishaps", "programs_with_lambda_helpers", "programs_with_declared_dependencies", "programs_with_mutual_recursion", "calls_with_function_argument", "fresh_interpreter_histories", "edits_cross_process", "edits_in_process", "restarts", "served_from_store", "ude_raised", "via:partial",
         "via:ignore_result", "delivery:inproc-mutate", "delivery:inproc-module"]


FRESH = {"quick": 12, "thorough": 400}


def cases(tier, seed):
    out = [evo.gen_history(core.run_seed(seed, PROP, i)) for i in range(NCASES[tier])]
    # histories whose every lifetime is a fresh interpreter with its own PYTHONHASHSEED
    for i in range(FRESH[tier]):
        c = evo.gen_history(core.run_seed(seed, PROP + "-fresh", i), max_edits=4)
        c["fresh_interpreters"] = True
        out.append(c)
    out.extend(crafted_cases())
    return out


def _node(i, name, kind="memento", explicit=None, calls=()):
    return {"id": i, "name": name, "module": 0, "kind": kind, "explicit": explicit, "salt": None, "const": 1, "nested": None,
            "setc": None, "tup": None, "fstr": None, "posdef": None, "kwdef": None, "globals": [], "calls": [{"to": j, "form": "bare"} for j in calls],
            "recur": False, "nestkind": "lambda", "deco": None, "fparams": [], "builtin": None}


def crafted_cases():
    """Hand-written histories for version-string shapes the generator does not draw."""
    from sim import progen
    out = []
    # two explicitly versioned dependencies whose version strings are re-split: ("1", "23") -> ("12", "3"), both edited
    for delivery in ("restart", "inproc-def"):
        prog = {"modules": ["m0"], "pkg": [0], "globals": [], "order": {}, "bshadow": {},
                "nodes": [_node(0, "f0", calls=(1, 2)), _node(1, "f1", explicit="1"), _node(2, "f2", explicit="23")]}
        prog["order"]["0"] = progen.default_order(prog, 0)
        steps = [{"op": "call", "node": 0, "x": 1, "via": "plain", "twice": False},
                 {"op": "edit", "edit": {"kind": "set_explicit", "node": 1, "value": "12", "const": 5}, "delivery": delivery, "n": 2},
                 {"op": "edit", "edit": {"kind": "set_explicit", "node": 2, "value": "3", "const": 6}, "delivery": delivery, "n": 3},
                 {"op": "call", "node": 0, "x": 1, "via": "plain", "twice": False}]
        out.append({"seed": 424200 + len(out), "prog": prog, "steps": steps, "cache": False,
                    "crafted": "explicit-version-digest-collision"})
    return out


def execute(case):
    viol, log, stats = evo.execute_history(case, {"c01"})
    if case.get("crafted"):
        stats["crafted_histories"] = 1
        for v in viol:
            v["features"]["crafted"] = case["crafted"]
    if case.get("fresh_interpreters"):
        stats["fresh_interpreter_histories"] = 1
    dg = core.digest_of(log)
    nontriv = any(s["op"] == "edit" for s in case["steps"]) and stats.get("calls", 0) > 0
    return {"violations": viol, "digest": dg, "nontrivial": nontriv, "stats": stats, "steps": len(log), "key": dg,
            "sample": {"modules": case["prog"]["modules"], "nodes": [[n["name"], n["kind"], [c["to"] for c in n["calls"]]] for n in case["prog"]["nodes"]],
                       "steps": [s if s["op"] != "edit" else {"edit": s["edit"]["kind"], "delivery": s["delivery"]} for s in case["steps"][:10]]}}


def shrink(case, same, budget_s):
    def test(steps):
        c = dict(case)
        c["steps"] = steps
        return same(c)
    c = dict(case)
    c["steps"] = core.ddmin_list(case["steps"], test, budget_s=budget_s, min_len=1)
    return c
