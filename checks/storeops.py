"""Engine `store`: storage-level operation histories against reference models.

Shared by C05 (DictStore), C06 (LruLaws), C07 (BlobLedger + tree scan), C19 (read-only).  The
public StorageBackend methods are driven directly with mementos built from real
FunctionReferences of a small function alphabet.  DESIGN.md 3.2."""
import sys
import datetime
import hashlib
import os
import pickle
import re
import shutil

from sim import core, simfs, values, world

FN_SRC = '''
import twosigma.memento as m

@m.memento_function(cluster="c5", version="1")
def fa(x):
    __vtrace__("fa", x)
    return x

@m.memento_function(cluster="c5", version="1")
def fab(x):
    __vtrace__("fab", x)
    return x

@m.memento_function(cluster="c5", version="2")
def fb(x):
    __vtrace__("fb", x)
    return x
'''
FN_NAMES = ["fa#1", "fa#10", "fab#1", "fb#2"]
XS = [0, 1, 2, 3]
OVERRIDE_KEYS = ["ko/k", "ko/k/sub", "ko/j", "ko/q3#final", "ko#a/b#c"]     # (a key may contain '#', the separator of key and version)
META_KEYS = ["log", "aux"]

BUDGETS_KIB = [2, 3, 4, 8, 64, 1024, 65536]


def size_classes(budget_bytes):
    """payload sizes for str values (estimate = 49 + 7 + n)."""
    if budget_bytes is None or budget_bytes > 70000:
        return {"tiny": 10, "third": 3000, "half": 6000, "exact": 12000, "over": 20000}
    b = budget_bytes
    return {"tiny": 10, "third": max(b // 3 - 80, 10), "half": max(b // 2 - 80, 10),
            "exact": b - 56, "over": b + 200}


# ----------------------------------------------------------------------------- generation

def gen_knobs(rng, backends=("fs", "fs+cache", "memory")):
    kind = backends[rng.randrange(len(backends))]
    kib = BUDGETS_KIB[rng.randrange(len(BUDGETS_KIB))] if kind == "fs+cache" else None
    return {"backend": kind, "cache_kib": kib, "sep_meta": rng.random() < 0.4 if kind != "memory" else False}


def gen_ops(rng, n, knobs, profile="c05"):
    budget = knobs["cache_kib"] * 1024 if knobs.get("cache_kib") else None
    sc = size_classes(budget)
    fns = list(FN_NAMES)
    rng.shuffle(fns)
    fns = fns[:rng.choice([2, 3, 4])]
    xs = XS[:rng.choice([2, 3, 4])]
    w = {"memoize": 5, "get": 2, "gets": 1, "read": 3, "hold": 1.2, "read_held": 1.5, "read_own": 1.0, "is": 1.5, "isall": 0.7, "forget_call": 1.2, "forget_fn": 0.7,
         "forget_all": 0.25, "list_fns": 0.5, "list_m": 1, "wmeta": 0.8, "rmeta": 0.8, "restart": 0.7}
    if profile == "c06":
        w.update({"wmeta": 0, "rmeta": 0, "list_fns": 0, "read_own": 0, "list_m": 0.6, "memoize": 5, "read": 4, "is": 2, "get": 2, "restart": 0.5})
    if profile == "c07":
        w.update({"memoize": 7, "wmeta": 0.3, "rmeta": 0.3})
    # swarm: knock out / boost some op kinds per run
    for k in list(w):
        r = rng.random()
        if r < 0.15 and k != "memoize":
            w[k] = 0
        elif r < 0.3:
            w[k] *= 3
    if knobs["backend"] == "memory":
        w["restart"] = 0
    if profile == "c19":
        w["read_own"] = 0
    kinds = [k for k in w if w[k] > 0]
    weights = [w[k] for k in kinds]
    types = ["str"] * 6 + ["bytes", "list", "dict", "df", "arr", "none", "int"]
    if knobs.get("hold"):
        types += ["arr", "df", "arr"]      # weak-referenceable values matter when the caller keeps them alive
    if profile == "c06" and budget and budget >= 65536:
        types += ["bigdf"]     # (fits these budgets whatever the sampled estimate says)
    if profile == "c07":
        types += ["part", "odpart", "odpart"]   # partitions (in memory / staged on disk) whose values share bytes with plain results
        types += ["badpart"]                    # ... and one whose storing fails half-way (a value that cannot be encoded)
    p_over = {"c05": 0.12, "c06": 0.05, "c07": 0.45, "c19": 0.15}.get(profile, 0.1)
    ops = []
    u = 0
    for _ in range(n):
        k = rng.choices(kinds, weights)[0]
        fn = fns[rng.randrange(len(fns))]
        x = xs[rng.randrange(len(xs))]
        if k == "memoize":
            u += 1
            cls = rng.choices(["tiny", "third", "half", "exact", "over"], [4, 3, 2, 1, 1.5])[0]
            t = types[rng.randrange(len(types))]
            n_ = sc[cls]
            if t in ("df", "bigdf", "arr", "list", "dict", "none", "int", "part", "odpart", "badpart"):
                cls = "typed"
                if t in ("part", "odpart", "badpart"):
                    n_ = sc[rng.choice(["tiny", "third"])]
            spec = {"t": t, "n": n_, "u": u if rng.random() > 0.12 else rng.randrange(1, 4), "cls": cls}
            ko = OVERRIDE_KEYS[rng.randrange(len(OVERRIDE_KEYS))] if rng.random() < p_over else None
            ops.append(["memoize", fn, x, spec, ko])
        elif k in ("get", "read", "is", "forget_call", "hold", "read_held", "read_own"):
            ops.append([k, fn, x])
        elif k in ("gets", "isall"):
            m = rng.randrange(1, 4)
            ops.append([k, [[fns[rng.randrange(len(fns))], xs[rng.randrange(len(xs))]] for _ in range(m)]])
        elif k == "forget_fn":
            ops.append([k, fn])
        elif k == "list_m":
            ops.append([k, fn, rng.choice([None, None, 1, 2])])
        elif k == "wmeta":
            ops.append([k, fn, x, META_KEYS[rng.randrange(2)], "%02x" % rng.randrange(256) * 3, rng.random() < 0.3])
        elif k == "rmeta":
            ops.append([k, fn, x, META_KEYS[rng.randrange(2)]])
        else:
            ops.append([k])
    if knobs.get("hold") and budget and profile in ("c05", "c07") and rng.random() < 0.2:
        # a value the caller keeps alive is replaced by one of another size class (fits -> too big for the cache, or the
        # reverse) and then read with the memento that was written: spread over the history, order kept
        fn, x, t = fns[rng.randrange(len(fns))], xs[rng.randrange(len(xs))], rng.choice(["arr", "arr", "df"])
        a, b = rng.choice([("third", "over"), ("third", "over"), ("over", "third"), ("tiny", "exact")])
        script = [["memoize", fn, x, {"t": t, "n": sc[a], "u": u + 1, "cls": "typed"}, None],
                  ["memoize", fn, x, {"t": t, "n": sc[b], "u": u + 2, "cls": "typed"}, None],
                  ["read_own", fn, x]]
        pos = sorted(rng.randrange(len(ops) + 1) for _ in script)
        for j, (p_, st) in enumerate(zip(pos, script)):
            ops.insert(p_ + j, st)
    return ops


# ----------------------------------------------------------------------------- execution

class World:
    """Backend under test + function alphabet, inside a lifetime."""

    def __init__(self, root, knobs, read_only=None, ro_via_config=False):
        from twosigma.memento import MementoFunction
        self.root = root
        self.knobs = knobs
        self.read_only = read_only
        self.ro_via_config = ro_via_config
        self.side = world.SideChannel()
        self.be = self.make_backend()
        world.make_env(root, None, clusters={"c5": self.be})
        mod = world.load_module("vstore", FN_SRC)
        self.fns = {"fa#1": mod.fa, "fab#1": mod.fab, "fb#2": mod.fb,
                    "fa#10": MementoFunction(mod.fa.fn, cluster_name="c5", version="10", register_fn=False)}

    def make_backend(self, plain=False, writable=False):
        from twosigma.memento.storage_filesystem import FilesystemStorageBackend
        from twosigma.memento.storage_memory import MemoryStorageBackend
        kn = self.knobs
        if kn["backend"] == "memory":
            return MemoryStorageBackend()
        kw = {"path": self.root + "/data"}
        if kn.get("sep_meta"):
            kw["metadata_path"] = self.root + "/meta"
        if kn.get("cache_kib") and not plain:
            kw["memory_cache_mb"] = kn["cache_kib"] / 1024.0
        if self.read_only and not writable:
            how = getattr(self, "ro_how", None) or ("config" if self.ro_via_config else "argument")
            cfg = {"path": kw["path"]}
            if "metadata_path" in kw:
                cfg["metadata_path"] = kw["metadata_path"]
            if "memory_cache_mb" in kw:
                cfg["memory_cache_mb"] = kw["memory_cache_mb"]
            if how == "config":
                be = FilesystemStorageBackend(config=dict(cfg, readonly=True))
            elif how == "argument-over-config":
                # the configuration says writable, the documented constructor override says read-only
                be = FilesystemStorageBackend(config=dict(cfg, readonly=False), read_only=True)
            elif how == "repo-template":
                # one repository file with a template parameter, loaded twice in this process: first the writer's view
                # (readonly=false), then the reader's view the operations go through (readonly=true)
                import json
                from twosigma.memento import ConfigurationRepository
                tpl = {"name": "rt", "clusters": {"c5": {"name": "c5", "storage": dict(cfg, type="filesystem", readonly="@RO@")}}}
                path = self.root + "/repo-template.json"
                with open(path, "w") as f:
                    f.write(json.dumps(tpl).replace('"@RO@"', "{{ readonly }}"))
                ConfigurationRepository.from_file(path, readonly="false")
                be = ConfigurationRepository.from_file(path, readonly="true").clusters["c5"].storage
            elif how == "config-reused":
                # one configuration dictionary that says read-only, used twice: first with the documented constructor
                # override for a writer, then as it is for the reader the operations go through
                shared = dict(cfg, readonly=True)
                FilesystemStorageBackend(config=shared, read_only=False)
                be = FilesystemStorageBackend(config=shared)
            elif how == "create-after-writable":
                # two backends built from configuration over the same directories: a writable one first (kept alive), then
                # the read-only one the operations go through
                from twosigma.memento.storage import StorageBackend
                self._writable_twin = StorageBackend.create("filesystem", dict(cfg, type="filesystem", readonly=False))
                be = StorageBackend.create("filesystem", dict(cfg, type="filesystem", readonly=True))
            elif how == "toggle":
                be = FilesystemStorageBackend(**kw)
                be.read_only = True
            else:
                be = FilesystemStorageBackend(**dict(kw, read_only=True))
            if getattr(self, "ro_roundtrip", False) and "metadata_path" not in kw:
                # the backend is handed on in dictionary form (as Environment.to_dict does) and rebuilt from it
                from twosigma.memento.storage import StorageBackend
                d = be.to_dict()
                be = StorageBackend.create(d["type"], d)
            return be
        return FilesystemStorageBackend(**kw)

    def roots(self):
        return world.store_roots(self.root, self.knobs.get("sep_meta"))

    def ref(self, fn, x):
        return self.fns[fn].fn_reference().with_args(x).fn_reference_with_arg_hash()

    def fra(self, fn, x):
        return self.fns[fn].fn_reference().with_args(x)

    def qn(self, fn):
        return self.fns[fn].fn_reference().qualified_name

    def memento(self, fn, x, value):
        from twosigma.memento.metadata import Memento, InvocationMetadata, ResultType
        fra = self.fra(fn, x)
        return Memento(
            time=datetime.datetime(2020, 1, 1, tzinfo=datetime.timezone.utc),
            invocation_metadata=InvocationMetadata(
                fn_reference_with_args=fra, invocations=[], resources=[],
                runtime=datetime.timedelta(seconds=1), result_type=ResultType.from_object(value)),
            function_dependencies={fra.fn_reference}, runner={"type": "local"}, correlation_id="cid",
            content_key=None)


class DictStore:
    """The reference: one dictionary keyed by (function name with version, argument)."""

    def __init__(self):
        self.d = {}
        self.unc = set()   # keys whose last memoize reported an I/O error: their state is left open until rewritten / forgotten

    def live_fns(self):
        return sorted(set(k[0] for k in self.d))


def clone(v):
    from twosigma.memento.partition import InMemoryPartition, Partition
    if isinstance(v, Partition):       # (an on-disk partition refers to a staging directory: remember its content instead)
        return InMemoryPartition({k: clone(v.get(k)) for k in sorted(v.list_keys())})
    return pickle.loads(pickle.dumps(v, protocol=5))


def run_ops(W, ops, check, emit_log, model=None, ledger=None, lru=None, faults=None):
    """Execute ops against W.be; returns list of (clause, features, detail) divergences.

    check: set of {"dict", "blob", "lru", "ro"}.
    """
    from twosigma.memento.metadata import ResultType
    model = model if model is not None else DictStore()
    viol = []
    stats = {}
    be = W.be
    is_mem = W.knobs["backend"] == "memory"

    def bump(k, n=1):
        stats[k] = stats.get(k, 0) + n

    lenient = "lenient" in check   # a store damaged on purpose: only the read-only clauses are judged

    def bad(clause, op, detail, **feat):
        if lenient and not (clause.startswith("read-only") or clause.startswith("ro-") and clause != "ro-putmeta-memento-not-found"):
            stats["note:not_judged_on_damaged_store"] = stats.get("note:not_judged_on_damaged_store", 0) + 1
            return
        f = {"backend": W.knobs["backend"]}
        f.update(feat)
        viol.append((clause, f, detail))

    def present_check(i, op, fn, x, g, where):
        if (fn, x) in model.unc:
            return False
        exp = (fn, x) in model.d
        if (g is not None) != exp:
            bad("lookup-presence", op, {"i": i, "key": [fn, x], "got_present": g is not None, "expected": exp, "via": where},
                expected="present" if exp else "absent")
            return False
        if g is not None:
            fr = g.invocation_metadata.fn_reference_with_args
            if fr.arg_hash != W.ref(fn, x).arg_hash or fr.fn_reference.qualified_name != W.qn(fn):
                bad("lookup-identity", op, {"i": i, "key": [fn, x], "got": [fr.fn_reference.qualified_name, fr.arg_hash]})
                return False
            ert = ResultType.from_object(model.d[(fn, x)]["val"])
            if g.invocation_metadata.result_type != ert:
                bad("lookup-result-type", op, {"i": i, "key": [fn, x], "got": str(g.invocation_metadata.result_type), "exp": str(ert)})
                return False
        return True

    from twosigma.memento.storage_base import MemoryCache
    _est = MemoryCache._estimate_object_size
    W.last_size = {}
    mementos_held = {}
    own = {}        # the memento object the caller handed to memoize() for the latest write of a key
    epoch = [0]
    held = [] if W.knobs.get("hold") else None   # a caller that keeps every value it ever saw alive

    def read_check(i, op, fn, x, g, backend=None, clause="read-value"):
        try:
            v = (backend or be).read_result(g)
            W.last_size[(fn, x)] = int(_est(v))
            if held is not None:
                held.append(v)
        except Exception as e:  # noqa
            bad(clause + "-raised", op, {"i": i, "key": [fn, x], "exc": world.describe_exc(e)})
            return
        exp = model.d[(fn, x)]["val"]
        if not values.deep_equal(v, exp):
            bad(clause, op, {"i": i, "key": [fn, x], "got": values.summary(v), "exp": values.summary(exp)},
                stale="older-write" if any(values.deep_equal(v, o) for o in model.d[(fn, x)].get("old", [])) else "other")

    for i, op in enumerate(ops):
        k = op[0]
        obs = None
        skipped = False
        if lru is not None:
            lru.before(i, op, W)
        try:
            if k == "restart":
                if not is_mem:
                    be = W.be = W.make_backend()
                    world.make_env(W.root, None, clusters={"c5": be})
                    bump("restarts")
                    if lru is not None:
                        lru.reset()
            elif k == "memoize":
                _, fn, x, spec, ko = op
                val = values.make_sized(spec)
                mem = W.memento(fn, x, val)
                W.last_size[(fn, x)] = int(_est(val))
                flt = (faults or {}).get(str(i))
                if spec["t"] == "badpart":
                    flt = None      # (this write fails by itself)
                if flt is not None:
                    simfs.set_plan({flt["k"]: flt})
                    nfired = len(simfs.S.fired)
                    try:
                        be.memoize(ko, mem, val)
                        failed = False
                    except OSError:
                        failed = True
                    simfs.set_plan({})
                    simfs.S.armed_open = None
                    if len(simfs.S.fired) > nfired:
                        bump("io_errors_injected")
                    if failed:
                        # a reported I/O error: the write did not happen as far as the caller knows.
                        # The store must stay consistent; what the failed key answers afterwards is left open.
                        bump("memoize_failed_with_io_error")
                        model.unc.add((fn, x))
                        if ledger is not None:
                            ledger.on_forget([(fn, x)])
                        emit_log([i, k, "io-error"])
                        if ledger is not None:
                            ledger.check(i, op, W, model, bad, bump)
                        if viol:
                            break
                        continue
                elif spec["t"] == "badpart" and not W.read_only:
                    # the write fails half-way with an error of the caller's making (a value that cannot be encoded): nothing
                    # that was stored before may be affected - the key keeps what it had
                    try:
                        be.memoize(ko, mem, val)
                        raise core.HarnessError("a partition with an unencodable value was memoized")
                    except core.HarnessError:
                        raise
                    except OSError:
                        raise
                    except Exception:  # noqa
                        bump("unencodable_partition_writes")
                    emit_log([i, k, "unencodable"])
                    if ledger is not None:
                        ledger.check(i, op, W, model, bad, bump)
                    if viol:
                        break
                    continue
                elif spec.get("alloc_fail") and spec["t"] == "df" and W.knobs.get("cache_kib") and not W.read_only:
                    # a failing allocation: the defensive copy the memory cache makes of a DataFrame raises MemoryError (only that
                    # copy: the patched method looks at its caller).  The write is un-acknowledged - the key may answer the old
                    # or the new value afterwards - and the cache's accounts must stay honest.
                    import pandas as pd
                    real_copy = pd.DataFrame.copy
                    hit = []

                    def failing_copy(self_, *a_, **k_):
                        if sys._getframe(1).f_code.co_name == "put" and not hit:
                            hit.append(1)
                            raise MemoryError("injected allocation failure")
                        return real_copy(self_, *a_, **k_)
                    pd.DataFrame.copy = failing_copy
                    try:
                        be.memoize(ko, mem, val)
                        failed = False
                    except MemoryError:
                        failed = True
                    finally:
                        pd.DataFrame.copy = real_copy
                    if failed:
                        bump("allocation_failures_injected")
                        model.unc.add((fn, x))
                        if (fn, x) in model.d:
                            model.d[(fn, x)] = dict(model.d[(fn, x)], epoch=-1)
                        else:
                            model.d[(fn, x)] = {"val": clone(val), "meta": {}, "ko": ko, "epoch": -1, "old": []}
                        if ledger is not None:
                            ledger.on_forget([(fn, x)])
                        if lru is not None:
                            # whether the key is resident, with which value, and whether the weak-reference table serves it, is
                            # open from here to its next successful write: no recency law is applied to it
                            key_ = lru.ckey(W, fn, x)
                            lru.certain.pop(key_, None)
                            lru.possible.pop(key_, None)
                            lru.fits.pop(key_, None)
                            lru.unsure.add(key_)
                        skipped = True
                        emit_log([i, k, "alloc-failure"])
                        if lru is not None:
                            lru.after(i, ["noop"], W, model, bad, bump)
                        if viol:
                            break
                        continue
                else:
                    be.memoize(ko, mem, val)
                if held is not None:
                    held.append(val)
                if not W.read_only:
                    model.unc.discard((fn, x))
                    old = model.d.get((fn, x), {})
                    meta = {}
                    for mk, me in (old.get("meta") or {}).items():
                        # custom metadata is keyed by the call and survives a re-memoize; a record stored
                        # "with the data" is tied to the replaced content version: unspecified from here on
                        meta[mk] = dict(me, unspec=True) if me["with_data"] else me
                    epoch[0] += 1
                    model.d[(fn, x)] = {"val": clone(val), "meta": meta, "ko": ko, "epoch": epoch[0],
                                        "old": (old.get("old", []) + [old["val"]])[-3:] if old else []}
                    own[(fn, x)] = (mem, epoch[0])
                    if old:
                        bump("rememoize_live_key")
                    if ko:
                        bump("override_writes")
                    if check & {"dict"} and not is_mem and ko and mem.content_key is not None and mem.content_key.key != ko \
                            and not mem.content_key.key.startswith(ko + "/"):
                        bad("override-key-ignored", op, {"i": i, "ck": mem.content_key.key, "ko": ko})
                    if ledger is not None:
                        ledger.on_memoize(i, fn, x, val, mem, ko)
                obs = ["memoized", spec.get("cls"), ko]
                del val
            elif k == "get":
                _, fn, x = op
                g = be.get_memento(W.ref(fn, x))
                present_check(i, op, fn, x, g, "get_memento")
                obs = g is not None
            elif k == "gets":
                keys = op[1]
                gs = be.get_mementos([W.ref(fn, x) for fn, x in keys])
                if len(gs) != len(keys):
                    bad("lookup-batch-length", op, {"i": i, "got": len(gs), "exp": len(keys)})
                for (fn, x), g in zip(keys, gs):
                    present_check(i, op, fn, x, g, "get_mementos")
                obs = [g is not None for g in gs]
            elif k == "read":
                _, fn, x = op
                g = be.get_memento(W.ref(fn, x))
                if present_check(i, op, fn, x, g, "get_memento") and g is not None:
                    read_check(i, op, fn, x, g)
                    bump("reads_of_live")
                obs = g is not None
            elif k == "hold":
                # a look-up whose memento the caller keeps: the read comes later, after other operations
                _, fn, x = op
                g = be.get_memento(W.ref(fn, x))
                if present_check(i, op, fn, x, g, "get_memento") and g is not None:
                    mementos_held[(fn, x)] = (g, model.d[(fn, x)].get("epoch"))
                    bump("mementos_held")
                obs = g is not None
            elif k == "read_held":
                _, fn, x = op
                h = mementos_held.get((fn, x))
                if h is not None and (fn, x) in model.d and model.d[(fn, x)].get("epoch") == h[1] and (fn, x) not in model.unc:
                    read_check(i, op, fn, x, h[0], clause="read-value-with-held-memento")
                    bump("reads_with_held_memento")
                    obs = True
                else:
                    skipped = True
            elif k == "read_own":
                # the result is read with the memento the caller itself passed to memoize() (no look-up in between)
                _, fn, x = op
                h = own.get((fn, x))
                if h is not None and (fn, x) in model.d and model.d[(fn, x)].get("epoch") == h[1] and (fn, x) not in model.unc:
                    read_check(i, op, fn, x, h[0], clause="read-value-with-written-memento")
                    bump("reads_with_written_memento")
                    obs = True
                else:
                    skipped = True
            elif k == "is":
                _, fn, x = op
                r = be.is_memoized(W.fns[fn].fn_reference(), W.ref(fn, x).arg_hash)
                if bool(r) != ((fn, x) in model.d) and (fn, x) not in model.unc:
                    bad("is-memoized", op, {"i": i, "key": [fn, x], "got": bool(r)}, expected=str((fn, x) in model.d))
                obs = bool(r)
            elif k == "isall":
                keys = op[1]
                r = be.is_all_memoized([W.fra(fn, x) for fn, x in keys])
                exp = all((fn, x) in model.d for fn, x in keys)
                if bool(r) != exp and not any(tuple(kk) in model.unc for kk in keys):
                    bad("is-all-memoized", op, {"i": i, "keys": keys, "got": bool(r)}, expected=str(exp))
                obs = bool(r)
            elif k == "forget_call":
                _, fn, x = op
                try:
                    flt = (faults or {}).get(str(i))
                    if flt is not None and not W.read_only and not is_mem:
                        # a reported I/O error inside the forget, then the caller tries again: once a forget has succeeded the
                        # call is gone altogether (memento, custom metadata, listings), whatever the failed attempt left behind
                        simfs.set_plan({flt["k"]: dict(flt, variant="error-before")})
                        nfired = len(simfs.S.fired)
                        try:
                            be.forget_call(W.ref(fn, x))
                            failed = False
                        except OSError:
                            failed = True
                        simfs.set_plan({})
                        if len(simfs.S.fired) > nfired:
                            bump("io_errors_injected")
                        if failed:
                            bump("forget_failed_with_io_error")
                            if W.knobs.get("cache_kib"):
                                # whatever the failed attempt left: the backend with the memory cache answers like a cache-less
                                # backend over the same directories (the cache never knows more than the store)
                                pb = W.make_backend(plain=True)
                                a_ = bool(be.is_memoized(W.fns[fn].fn_reference(), W.ref(fn, x).arg_hash))
                                b_ = bool(pb.is_memoized(W.fns[fn].fn_reference(), W.ref(fn, x).arg_hash))
                                if a_ != b_:
                                    bad("cache-and-store-disagree-after-failed-forget", op, {"i": i, "key": [fn, x], "cached_backend": a_, "plain_backend": b_})
                            be.forget_call(W.ref(fn, x))
                            for mk in META_KEYS:      # nothing of the call may answer any more
                                gotm = be.read_metadata(W.ref(fn, x), mk)
                                if gotm is not None:
                                    bad("metadata-of-forgotten-call", op, {"i": i, "key": [fn, x, mk], "got": repr(gotm), "after": "failed forget, repeated"})
                            if be.is_memoized(W.fns[fn].fn_reference(), W.ref(fn, x).arg_hash):
                                bad("is-memoized", op, {"i": i, "key": [fn, x], "got": True, "via": "after repeated forget"}, via="after-failed-forget")
                    else:
                        be.forget_call(W.ref(fn, x))
                    if W.read_only:
                        bad("ro-forget-accepted", op, {"i": i})
                    if (fn, x) in model.d:
                        bump("forgot_live")
                    model.d.pop((fn, x), None)
                    model.unc.discard((fn, x))
                    if ledger is not None:
                        ledger.on_forget([(fn, x)])
                except ValueError as e:
                    if not W.read_only:
                        raise
                    obs = "rejected"
            elif k == "forget_fn":
                fn = op[1]
                try:
                    be.forget_function(W.fns[fn].fn_reference())
                    if W.read_only:
                        bad("ro-forget-accepted", op, {"i": i})
                    gone = [kk for kk in model.d if kk[0] == fn]
                    for kk in gone:
                        del model.d[kk]
                    model.unc -= set(kk for kk in model.unc if kk[0] == fn)
                    if ledger is not None:
                        ledger.on_forget(gone)
                except ValueError:
                    if not W.read_only:
                        raise
                    obs = "rejected"
            elif k == "forget_all":
                try:
                    be.forget_everything()
                    if W.read_only:
                        bad("ro-forget-accepted", op, {"i": i})
                    gone = list(model.d)
                    model.d.clear()
                    model.unc.clear()
                    if ledger is not None:
                        ledger.on_forget(gone)
                    bump("forget_everything")
                except ValueError:
                    if not W.read_only:
                        raise
                    obs = "rejected"
            elif k == "wmeta":
                _, fn, x, mk, hexv, with_data = op
                if W.read_only:
                    ck = None
                    if with_data and not is_mem and (fn, x) in model.d:
                        g = be.get_memento(W.ref(fn, x))
                        ck = g.content_key if g is not None else None
                    try:
                        be.write_metadata(W.ref(fn, x), mk, bytes.fromhex(hexv), store_with_content_key=ck)
                        bad("ro-metadata-write-accepted", op, {"i": i})
                    except ValueError:
                        obs = "rejected"
                    if ck is not None:
                        bump("ro_metadata_with_data_attempts")
                elif (fn, x) in model.d:
                    ent = model.d[(fn, x)]
                    ck = None
                    if with_data and not is_mem:
                        shared = any(kk != (fn, x) and values.deep_equal(e2["val"], ent["val"]) for kk, e2 in model.d.items())
                        g = be.get_memento(W.ref(fn, x))
                        ck = g.content_key if (g is not None and not shared) else None
                    be.write_metadata(W.ref(fn, x), mk, bytes.fromhex(hexv), store_with_content_key=ck)
                    prev = ent["meta"].get(mk)
                    # a key written once plainly and once "with data" has two competing records: unspecified
                    unspec = bool(prev is not None and (prev["unspec"] or prev["with_data"] != bool(ck)))
                    ent["meta"][mk] = {"val": bytes.fromhex(hexv), "with_data": bool(ck), "unspec": unspec}
                    bump("metadata_writes")
                    if ck:
                        bump("metadata_with_data_writes")
            elif k == "rmeta":
                _, fn, x, mk = op
                if (fn, x) in model.d:
                    me = model.d[(fn, x)]["meta"].get(mk)
                    if me is None or not me["unspec"]:
                        got = be.read_metadata(W.ref(fn, x), mk)
                        exp = me["val"] if me else None
                        if got != exp:
                            bad("metadata-value", op, {"i": i, "key": [fn, x, mk], "got": repr(got), "exp": repr(exp)})
                        obs = got is not None
                else:
                    got = be.read_metadata(W.ref(fn, x), mk)
                    if got is not None:
                        bad("metadata-of-forgotten-call", op, {"i": i, "key": [fn, x, mk], "got": repr(got)})
            elif k == "list_m" and faults and (model.unc or stats.get("memoize_failed_with_io_error")):
                # a listing over a store where a write failed half-way is outside every statement: noted, not judged
                try:
                    be.list_mementos(W.fns[op[1]].fn_reference(), limit=op[2])
                except OSError:
                    bump("note:listing_raised_after_failed_write")
            elif k == "list_m":
                _, fn, limit = op
                got = sorted(z.invocation_metadata.fn_reference_with_args.arg_hash
                             for z in be.list_mementos(W.fns[fn].fn_reference(), limit=limit))
                exp = sorted(W.ref(f, xx).arg_hash for (f, xx) in model.d if f == fn)
                if limit is None:
                    if got != exp:
                        bad("list-mementos", op, {"i": i, "fn": fn, "got": len(got), "exp": len(exp)},
                            diff="superset" if set(got) > set(exp) else "subset" if set(got) < set(exp) else "other")
                else:
                    if len(got) != min(limit, len(exp)) or not set(got) <= set(exp) or len(set(got)) != len(got):
                        bad("list-mementos-limit", op, {"i": i, "fn": fn, "got": got, "exp": exp, "limit": limit})
                obs = len(got)
            elif k == "list_fns":
                pass
            elif k == "sweep":
                pass
            elif k == "call":
                _, fn, x = op
                W.side.take()
                flt = (faults or {}).get(str(i))
                nrf = 0
                if flt is not None and flt.get("read") and simfs.S.active:
                    # a reported I/O error while this call reads what is stored (at most one read fails)
                    simfs.set_read_plan(p=1.0, max_faults=1, seed=i)
                    nrf = len(simfs.S.read_fired)
                r = W.fns[fn](x)
                runs = len(W.side.take())
                if flt is not None and flt.get("read") and simfs.S.active:
                    fired_r = len(simfs.S.read_fired) - nrf
                    simfs.set_read_plan()
                    if fired_r:
                        bump("calls_with_read_error")
                        if runs == 1 and r == x:
                            # the stored result could not be read: computed again (nothing is written through a read-only store)
                            bump("calls_recomputed_after_read_error")
                            obs = "recomputed"
                            if lru is not None:
                                lru.after(i, ["noop"], W, model, bad, bump)
                            emit_log([i, k, obs])
                            continue
                if (fn, x) in model.d:
                    if runs != 0 or not values.deep_equal(r, model.d[(fn, x)]["val"]):
                        bad("call-of-memoized", op, {"i": i, "key": [fn, x], "runs": runs, "got": values.summary(r)})
                    bump("calls_served")
                else:
                    if runs != 1 or r != x:
                        bad("call-of-unmemoized-did-not-execute", op, {"i": i, "key": [fn, x], "runs": runs, "got": values.summary(r)})
                    bump("calls_executed")
                obs = runs
            elif k in ("fforget", "fforget_all", "fputmeta", "forget_cluster"):
                from twosigma.memento import forget_cluster
                from twosigma.memento.exception import MementoNotFoundError
                try:
                    if k == "fforget":
                        W.fns[op[1]].forget(op[2])
                    elif k == "fforget_all":
                        W.fns[op[1]].forget_all()
                    elif k == "forget_cluster":
                        forget_cluster("c5")
                    else:
                        W.fns[op[1]].put_metadata(op[3], b"zz", op[2], store_with_data=bool(op[4]) if len(op) > 4 else False)
                    if W.read_only:
                        bad("ro-" + k + "-accepted", op, {"i": i})
                except ValueError:
                    obs = "rejected"
                except MementoNotFoundError:
                    obs = "no-memento"
                    if (op[1], op[2]) in model.d:
                        bad("ro-putmeta-memento-not-found", op, {"i": i})
            else:
                raise core.HarnessError("unknown op %r" % (op,))
            # cross invariant after every op: listings enumerate exactly the live functions
            if "dict" in check or "ro" in check:
                got = sorted(set(r.qualified_name for r in be.list_functions()))
                exp = sorted(W.qn(f) for f in model.live_fns())
                ghosts_allowed = bool(stats.get("forget_failed_with_io_error")) and not is_mem
                if got != exp and not (ghosts_allowed and set(got) > set(exp)):
                    # (after a forget that met a reported I/O error, objects it did not get to may stay behind and keep a
                    # function directory alive: such a function may be listed although it has no calls left - outside every
                    # statement; a LIVE function that is missing from the listing is still a violation)
                    bad("list-functions", op, {"i": i, "got": got, "exp": exp},
                        diff="superset" if set(got) > set(exp) else "subset" if set(got) < set(exp) else "other")
                elif got != exp:
                    bump("note:ghost_function_listed_after_failed_forget")
            if k in ("restart", "sweep") or i == len(ops) - 1:
                # full sweep: nothing forgotten answers again, everything live is found and reads its last value
                if "dict" in check or "ro" in check:
                    for fn in sorted(W.fns):
                        for x in XS:
                            r = be.is_memoized(W.fns[fn].fn_reference(), W.ref(fn, x).arg_hash)
                            if bool(r) != ((fn, x) in model.d) and (fn, x) not in model.unc:
                                bad("is-memoized", ["sweep"], {"i": i, "key": [fn, x], "got": bool(r), "via": "sweep"},
                                    expected=str((fn, x) in model.d))
                    for fn in sorted(W.fns):
                        for x in XS:
                            g = be.get_memento(W.ref(fn, x))
                            if present_check(i, ["sweep"], fn, x, g, "sweep") and g is not None:
                                read_check(i, ["sweep"], fn, x, g)
        except core.HarnessError:
            raise
        except Exception as e:  # noqa
            import traceback
            tb = traceback.extract_tb(e.__traceback__)
            where = [f for f in tb if "twosigma/memento" in f.filename]
            bad("operation-raised", op, {"i": i, "exc": world.describe_exc(e),
                                         "at": "%s:%d" % (os.path.basename(where[-1].filename), where[-1].lineno) if where else "harness",
                                         "tb": traceback.format_exc()[-1500:] if not where else None},
                exc=type(e).__name__)
            if not where:
                raise core.HarnessError("harness exception in run_ops: " + traceback.format_exc()[-2000:])
        if "ro" in check and simfs.S.intolerant:
            bad("read-only-store-mutated", op, {"i": i, "events": [list(e) for e in simfs.S.intolerant[:4]]},
                event=simfs.S.intolerant[0][0], by=k)
        if lru is not None:
            lru.after(i, ["noop"] if skipped else op, W, model, bad, bump)
        if ledger is not None:
            ledger.check(i, op, W, model, bad, bump)
        emit_log([i, k, obs])
        if viol:
            break
    return viol, stats


# ----------------------------------------------------------------------------- generic case runner

def execute_case(case, check, profile, prop):
    """case: {"seed", "knobs", "ops"} (+ optional "backends": list of knobs run in lock-step)."""
    backends = case.get("backends") or [case["knobs"]]
    all_viol = []
    stats = {}
    logs = []
    steps = 0
    for kn in backends:
        root = core.new_scratch(prop.lower())

        def body(emit, kn=kn, root=root):
            world.install_seams(case["seed"])
            W = World(root, kn)
            log = []
            ledger = BlobLedger(fault_mode=bool(case.get("faults"))) if "blob" in check and kn["backend"] != "memory" else None
            lru = LruLaws(kn) if "lru" in check and kn.get("cache_kib") else None
            if lru is not None or "fsreads" in check:
                simfs.arm(W.roots())
            if case.get("faults"):
                simfs.arm(W.roots())
            v, st = run_ops(W, case["ops"], check, log.append, ledger=ledger, lru=lru, faults=case.get("faults"))
            if lru is not None:
                st.update(lru.stats)
            if ledger is not None:
                st.update(ledger.stats)
            emit({"viol": [[c, f, d] for c, f, d in v], "stats": st, "log": log})
        try:
            ev, _ = core.lifetime(body)
        finally:
            shutil.rmtree(root, ignore_errors=True)
        r = ev[-1]
        logs.append(r["log"])
        steps += len(r["log"])
        for k, n in r["stats"].items():
            stats[k] = stats.get(k, 0) + n
        for c, f, d in r["viol"]:
            all_viol.append(core.violation(c, f, d))
    dg = core.digest_of(logs)
    nontriv = steps >= 3 and any(o[0] == "memoize" for o in case["ops"])
    return {"violations": all_viol[:1], "digest": dg, "nontrivial": nontriv, "stats": stats, "steps": steps,
            "key": dg, "sample": {"knobs": backends, "ops": case["ops"][:12]}}


# ----------------------------------------------------------------------------- C07 model

HEX64 = re.compile(r"^[0-9a-f]{64}$")


class BlobLedger:
    """Remembers, for every live memento, the value stored when it was created (C07)."""

    def __init__(self, fault_mode=False):
        self.live = {}   # (fn, x) -> {"val", "ko", "ck": (key, version) | None}
        self.stats = {}
        self.fault_mode = fault_mode   # after reported I/O errors orphan objects and broken links may exist; only what is
                                       # reachable (through a link or a memento) must be intact

    def on_memoize(self, i, fn, x, val, mem, ko):
        ck = mem.content_key
        self.live[(fn, x)] = {"val": clone(val), "ko": ko, "ck": (ck.key, ck.version) if ck is not None else None,
                              "i": i}

    def on_forget(self, keys):
        for k in keys:
            self.live.pop(k, None)

    def check(self, i, op, W, model, bad, bump):
        was = simfs.S.active
        simfs.S.active = False
        try:
            self._check(i, op, W, bad, bump)
        finally:
            simfs.S.active = was

    def _check(self, i, op, W, bad, bump):
        from twosigma.memento.partition import Partition
        data_root = W.root + "/data"
        # (1) tree scan
        objects = {}
        if os.path.isdir(data_root + "/c"):
            for dp, dn, fnames in os.walk(data_root + "/c"):
                dn.sort()
                for name in sorted(fnames):
                    p = os.path.join(dp, name)
                    rel = p[len(data_root):]
                    if "/.versions/" in rel and HEX64.match(name):
                        with open(p, "rb") as f:
                            h = hashlib.sha256(f.read()).hexdigest()
                        if self.fault_mode:
                            continue     # judged below, through the links
                        objects.setdefault(name, []).append(rel)
                        if h != name:
                            bad("content-hash-mismatch", op, {"i": i, "file": rel, "sha256": h})
                            return
                    elif name.endswith(".link"):
                        with open(p) as f:
                            tgt = f.read()
                        if not os.path.isfile(tgt):
                            if self.fault_mode:
                                continue     # a link left empty / truncated by a failed write is treated as absent by the library
                            bad("dangling-content-link", op, {"i": i, "link": rel, "target": tgt[len(data_root):]})
                            return
                        if self.fault_mode and HEX64.match(os.path.basename(tgt)):
                            with open(tgt, "rb") as f:
                                h = hashlib.sha256(f.read()).hexdigest()
                            if h != os.path.basename(tgt):
                                bad("content-hash-mismatch", op, {"i": i, "file": tgt[len(data_root):], "sha256": h, "via": rel})
                                return
        for name, paths in objects.items():
            if len(paths) > 1:
                bad("duplicate-content-object", op, {"i": i, "hash": name, "copies": len(paths)})
                return
        bump("tree_scans")
        bump("objects_scanned", len(objects))
        # (2)(3)(4) through a cache-less backend object
        plain = W.make_backend(plain=True, writable=True)
        by_bytes = {}
        for (fn, x), ent in sorted(self.live.items()):
            try:
                g = plain.get_memento(W.ref(fn, x))
            except Exception as e:  # noqa
                bad("memento-unreadable", op, {"i": i, "key": [fn, x], "exc": world.describe_exc(e), "written_at": ent["i"]},
                    override=str(bool(ent["ko"])), stage="metadata")
                return
            if g is None:
                bad("live-memento-missing", op, {"i": i, "key": [fn, x]})
                return
            ck = g.content_key
            got_ck = (ck.key, ck.version) if ck is not None else None
            if got_ck != ent["ck"]:
                bad("content-key-changed", op, {"i": i, "key": [fn, x], "stored": ent["ck"], "now": got_ck},
                    override=str(bool(ent["ko"])))
                return
            try:
                v = plain.read_result(g)
                ok = values.deep_equal(v, ent["val"])
            except Exception as e:  # noqa
                bad("memento-unreadable", op, {"i": i, "key": [fn, x], "exc": world.describe_exc(e), "written_at": ent["i"]},
                    override=str(bool(ent["ko"])))
                return
            if not ok:
                bad("memento-bytes-changed", op, {"i": i, "key": [fn, x], "got": values.summary(v),
                                                  "exp": values.summary(ent["val"]), "written_at": ent["i"]},
                    override=str(bool(ent["ko"])))
                return
            bump("immutability_reads")
            if ck is not None and not ent["ko"]:
                with plain._data_source.input_versioned(ck) as f:
                    data = f.read()
                if ck.key != "c/" + hashlib.sha256(data).hexdigest():
                    bad("content-key-not-hash-of-bytes", op, {"i": i, "key": [fn, x], "ck": ck.key})
                    return
                by_bytes.setdefault(hashlib.sha256(data).hexdigest(), set()).add(got_ck)
        for h, cks in by_bytes.items():
            if len(cks) > 1:
                bad("equal-bytes-not-shared", op, {"i": i, "hash": h, "keys": sorted(cks)})
                return
        shared = sum(1 for (fn, x), e in self.live.items() if not e["ko"] and e["ck"] is not None)
        if shared > len(by_bytes):
            bump("dedup_shared_objects", shared - len(by_bytes))


# ----------------------------------------------------------------------------- C06 model

class LruLaws:
    """Laws of a bounded LRU write-through cache (not a bit-exact replica).  See DESIGN.md C06."""

    def __init__(self, knobs):
        self.budget = int(knobs["cache_kib"] * 1024)
        self.t = 0
        self.certain = {}    # cache key -> time of last certain use (write / read that (re)filled or marked)
        self.possible = {}   # cache key -> time of last possible use
        self.fits = {}       # cache key -> bool: the value last written/filled fits the budget
        self.unsure = set()  # cache keys whose residency is open (a cache insertion of theirs failed half-way)
        self.stats = {"evictions_observed": 0, "hits_without_io": 0, "miss_path_taken": 0, "oversize_bypassed": 0}
        self.states = set()
        self._pre = None

    def reset(self):
        self.certain.clear()
        self.possible.clear()
        self.fits.clear()

    @staticmethod
    def _mc(W):
        return getattr(W.be, "_memory_cache", None)

    @staticmethod
    def ckey(W, fn, x):
        return W.qn(fn) + "/" + W.ref(fn, x).arg_hash

    def before(self, i, op, W):
        mc = self._mc(W)
        if mc is None:
            self._pre = None
            return
        self._pre = {"resident": {k: e.has_value for k, e in mc.cache.items()}, "reads": simfs.S.reads}

    def _filled(self, i, op, W, fn, x, key, now, t, bad):
        """A read that missed loads the value and offers it to the cache."""
        size = W.last_size.get((fn, x))
        if size is None:
            return True
        if size > self.budget:
            self.stats["oversize_bypassed"] += 1
            self.fits[key] = False
            self.certain.pop(key, None)
            self.possible.pop(key, None)
            if key in now and now[key].has_value:
                bad("cache-oversize-or-stale-resident", op, {"i": i, "key": key, "size": size})
                return False
        else:
            self.fits[key] = True
            self.certain[key] = self.possible[key] = t
            if key not in now or not now[key].has_value:
                bad("cache-read-fill-not-resident", op, {"i": i, "key": key, "size": size})
                return False
        return True

    def after(self, i, op, W, model, bad, bump):
        mc = self._mc(W)
        if mc is None or self._pre is None:
            return
        from twosigma.memento.storage_base import MemoryCache
        self.t += 1
        t = self.t
        k = op[0]
        pre = self._pre["resident"]
        now = {key: e for key, e in mc.cache.items()}
        est = MemoryCache._estimate_object_size
        # --- law 1 / 5: budget and honest accounting
        if mc.memory_usage > self.budget:
            bad("cache-over-budget", op, {"i": i, "usage": int(mc.memory_usage), "budget": self.budget})
            return
        acct = sum(int(e.obj_size) for e in now.values())
        if int(mc.memory_usage) != acct:
            bad("cache-usage-counter-drift", op, {"i": i, "usage": int(mc.memory_usage), "entries": acct})
            return
        def sampled(v):      # the estimate of such a value is drawn from a random sample: it cannot be recomputed
            return hasattr(v, "sample") and hasattr(v, "__len__") and len(v) > 100
        real = sum((int(e.obj_size) if sampled(e.value) else int(est(e.value))) if e.has_value else int(est(None)) for e in now.values())
        if real != acct:
            bad("cache-entry-size-dishonest", op, {"i": i, "accounted": acct, "estimate": real})
            return
        if not model.d and not now and mc.memory_usage != 0:
            bad("cache-usage-not-zero-after-forget", op, {"i": i, "usage": int(mc.memory_usage)})
            return
        if not model.d and now:
            bad("cache-holds-forgotten-entries", op, {"i": i, "keys": sorted(now)[:3]})
            return
        # --- bookkeeping of uses
        if k == "memoize" and not W.read_only:
            key = self.ckey(W, op[1], op[2])
            self.unsure.discard(key)
            size = W.last_size[(op[1], op[2])]
            if size > self.budget:
                self.stats["oversize_bypassed"] += 1
                self.fits[key] = False
                self.certain.pop(key, None)
                self.possible.pop(key, None)
                if key in now:
                    bad("cache-oversize-or-stale-resident", op, {"i": i, "key": key, "size": size, "budget": self.budget})
                    return
            else:
                self.fits[key] = True
                self.certain[key] = self.possible[key] = t
                if key not in now or not now[key].has_value:
                    bad("cache-latest-write-not-resident", op, {"i": i, "key": key, "size": size})
                    return
        elif k in ("get", "gets", "read", "is", "isall", "hold", "read_held"):
            keys = [(op[1], op[2])] if k in ("get", "read", "is", "hold", "read_held") else [tuple(z) for z in op[1]]
            if k == "hold":
                k = "get"
            from_refs_possible = False
            if k == "read_held":
                k = "read"
                # no look-up precedes this read: a non-resident value may be served from the weak-reference table
                # without being re-inserted (legitimate, see DESIGN 4/C06)
                from_refs_possible = True
            for fn, x in keys:
                key = self.ckey(W, fn, x)
                if (fn, x) not in model.d:
                    continue
                if key in self.unsure or (fn, x) in model.unc:
                    if key in now:
                        self.possible[key] = t      # whatever the look-up left resident was used just now
                    continue
                if key in pre:
                    self.possible[key] = t
                    if k == "read" and pre[key]:
                        self.certain[key] = t
                        # law 4: a resident value is served without touching the store
                        if simfs.S.reads != self._pre["reads"]:
                            bad("cache-hit-touched-store", op, {"i": i, "key": key, "fs_reads": simfs.S.reads - self._pre["reads"]})
                            return
                        self.stats["hits_without_io"] += 1
                    elif k == "read":
                        self.stats["miss_path_taken"] += 1
                        if not self._filled(i, op, W, fn, x, key, now, t, bad):
                            return
                elif k in ("get", "gets", "read"):
                    # miss: the lookup (re)fills the cache -> an insertion at the most-recent end
                    if key in now:
                        self.certain[key] = self.possible[key] = t
                        self.fits.setdefault(key, True)
                    if k == "read":
                        self.stats["miss_path_taken"] += 1
                        if from_refs_possible and key not in now:
                            continue
                        if not self._filled(i, op, W, fn, x, key, now, t, bad):
                            return
        elif k in ("forget_call", "forget_fn", "forget_all"):
            live = set(self.ckey(W, fn, x) for (fn, x) in model.d)
            for key in list(self.certain):
                if key not in live:
                    self.certain.pop(key, None)
                    self.possible.pop(key, None)
                    self.fits.pop(key, None)
            gone = [key for key in now if key not in live]
            if gone:
                bad("cache-holds-forgotten-entries", op, {"i": i, "keys": gone[:3]})
                return
        ev = [key for key in pre if key not in now]
        if ev and k not in ("forget_call", "forget_fn", "forget_all"):
            self.stats["evictions_observed"] += len(ev)
        # --- law 3: LRU order
        for a in now:
            if a in self.unsure:
                continue
            pa = self.possible.get(a, 0)
            for b, cb in self.certain.items():
                if b not in now and self.fits.get(b) and cb > pa:
                    bad("cache-evicted-more-recent-entry", op, {"i": i, "resident": a, "resident_last_possible_use": pa,
                                                                 "evicted": b, "evicted_last_certain_use": cb})
                    return
        # abstract state for the reach measure
        order = tuple(sorted(((self.certain.get(key, 0)), 1 if e.has_value else 0) for key, e in now.items()))
        self.states.add((len(now), tuple(r for _, r in order)))
        self.stats["abstract_states"] = len(self.states)


def shrink_ops_with_faults(case, same, budget_s):
    """ddmin over (op, fault) pairs, so that a fault stays attached to its operation when others are dropped."""
    pairs = [(op, (case.get("faults") or {}).get(str(i))) for i, op in enumerate(case["ops"])]

    def build(ps):
        c = dict(case)
        c["ops"] = [p[0] for p in ps]
        if case.get("faults") is not None:
            c["faults"] = {str(i): p[1] for i, p in enumerate(ps) if p[1] is not None}
        return c
    ps = core.ddmin_list(pairs, lambda cand: same(build(cand)), budget_s=budget_s, min_len=1)
    return build(ps)
